#!/venv/bin/python
"""Regenerates MANIFEST.json from the table below (keeps the manifest valid at all times)."""
import json, sys
from pathlib import Path

HOME = Path(__file__).resolve().parent.parent
ALL = [f"C{i:02d}" for i in range(1, 20)]

# id -> (technique, level category, level text, level note, design ref)
CHECKS = {}

def add(pid, technique, text, note, category="exploration", ref=None):
    CHECKS[pid] = dict(technique=technique, category=category, text=text, note=note, ref=ref or f"DESIGN.md section 4, {pid}")

exec((HOME / "tools" / "manifest_table.py").read_text())

props = {json.loads(l)["id"] for l in (HOME / "properties.jsonl").read_text().splitlines() if l.strip()}
checks = []
for pid in ALL:
    if pid not in CHECKS:
        continue
    c = CHECKS[pid]
    checks.append({
        "property_id": pid,
        "quick_cmd": f"./check {pid} quick",
        "thorough_cmd": f"./check {pid} thorough",
        "evidence_file": f"/verif/evidence/{pid}.json",
        "replay_cmd_template": f"./check {pid} --replay {{path}}",
        "engine": "vf",
        "level_claimed": {"category": c["category"], "text": c["text"], "design_ref": c["ref"]},
        "level_note": c["note"],
        "technique": c["technique"],
    })
na = [{"property_id": pid, "reason": NOT_APPLICABLE.get(pid, "no check is registered for this property yet (work in progress); nothing is claimed")}
      for pid in ALL if pid not in CHECKS]
manifest = {
    "version": 1,
    "setup_cmd": "(/venv/bin/python -c 'import hypothesis' 2>/dev/null || /venv/bin/pip install --no-index --find-links /opt/veriftools/wheels hypothesis) && (test -d /verif/.deps/atheris || /venv/bin/pip install --quiet --no-index --find-links /opt/veriftools/wheels --target /verif/.deps atheris || echo 'atheris not installed: the optional coverage-guided campaigns of C03/C05 will be skipped')",
    "hooks": {
        "guard": "CODELIMIT_VERIF",
        "enable": "no hook lives in /repo: codelimit is pure Python, checks import /repo's working tree directly (PYTHONPATH=/repo) and install call counters / pattern capture by wrapping module attributes from the harness process; ./check exports CODELIMIT_VERIF=1 for uniformity",
        "baseline_off_cmd": "cd /repo && /venv/bin/python -m pytest -ra -q -p no:cacheprovider --timeout=900 --continue-on-collection-errors",
        "source_commits": [],
        "add_only": True,
    },
    "engines": [{
        "name": "vf",
        "path": "/verif/vf",
        "serves_properties": [c["property_id"] for c in checks],
        "kind_free_text": "property-based testing: Hypothesis 6.168 generators (collect-then-shrink), bounded-exhaustive enumeration with itertools over 16 processes, explicit oracles (reference models, round trips, differential and metamorphic relations), committed replay files",
    }, {
        "name": "atheris",
        "path": "/verif/vf/fuzz",
        "serves_properties": ["C03", "C05"],
        "kind_free_text": "coverage-guided fuzzing (atheris 3.1 / libFuzzer) of scan_file with codelimit instrumented; the C03 / C05 oracles run inside the target, findings are re-validated by the vf engine; optional extra engine (skipped with a note if the wheel is absent)",
    }],
    "checks": checks,
    "not_applicable": na,
    "notes": NOTES,
}
(HOME / "MANIFEST.json").write_text(json.dumps(manifest, indent=1) + "\n")
try:
    import jsonschema
    jsonschema.validate(manifest, json.loads(Path("/root/.vp/MANIFEST.schema.json").read_text()))
    print("MANIFEST.json valid;", len(checks), "checks,", len(na), "not claimed")
except ImportError:
    print("MANIFEST.json written (jsonschema not importable here);", len(checks), "checks")
