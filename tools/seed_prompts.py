#!/venv/bin/python
"""Prepare one round of independent seeded-change production: per property a scratch worktree of /repo under <base>/<ID>
and a self-contained PROMPT.txt under <base>/out/<ID>/ (the agent gets only the property text, the summaries of the
changes earlier rounds already produced for it, and its worktree - nothing from /verif).

  tools/seed_prompts.py <base> <round-word> [IDs...]       e.g. tools/seed_prompts.py /tmp/seed4 FOURTH
  tools/seed_prompts.py --cleanup <base>                   removes the worktrees
"""
import json, os, subprocess, sys

args = sys.argv[1:]
if args[0] == "--cleanup":
    base = args[1]
    for d in sorted(os.listdir(base)):
        p = os.path.join(base, d)
        if d != "out" and os.path.isdir(p):
            subprocess.run(["git", "-C", "/repo", "worktree", "remove", "--force", p])
    subprocess.run(["git", "-C", "/repo", "worktree", "prune"])
    sys.exit(0)

base, word = args[0], args[1]
props = {}
for line in open("/verif/properties.jsonl"):
    p = json.loads(line); props[p["id"]] = p
ids = args[2:] or sorted(props)
prior = {}
for n in sorted(os.listdir("/verif/seeded")):
    mp = f"/verif/seeded/{n}/meta.json"
    if os.path.exists(mp):
        m = json.load(open(mp)); prior.setdefault(m["property"], []).append(m)

TEMPLATE = open(os.path.join(os.path.dirname(__file__), "seed_prompt_template.txt")).read()
os.makedirs(f"{base}/out", exist_ok=True)
for pid in ids:
    p = props[pid]; tree = f"{base}/{pid}"; out = f"{base}/out/{pid}"
    os.makedirs(out, exist_ok=True)
    if not os.path.exists(tree):
        subprocess.run(["git", "-C", "/repo", "worktree", "add", "-q", "--detach", tree, "HEAD"], check=True)
    q = p["quantifier"]; qtext = q.get("text", "") if isinstance(q, dict) else str(q)
    earlier = "\n".join(f" - {m['summary'][:330]} (files: {', '.join(m.get('files_changed', []))})" for m in prior.get(pid, []))
    text = (TEMPLATE.replace("@TREE@", tree).replace("@OUT@", out).replace("@ID@", pid).replace("@TITLE@", p["title"])
            .replace("@STATEMENT@", p["statement"]).replace("@QUANT@", qtext).replace("@ROUND@", word).replace("@EARLIER@", earlier)
            .replace("@BASE@", base))
    open(f"{out}/PROMPT.txt", "w").write(text)
    print(pid, tree, len(prior.get(pid, [])), "earlier changes listed")
