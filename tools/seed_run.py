#!/venv/bin/python
"""Run checks against every kept seeded change and record which check catches which change.

  tools/seed_run.py [--tier quick] [--only C07-m1 ...] [--checks C07,C02]
Each seeded change is applied to a scratch worktree (never to /repo); the property's own check (and any extra ones
named in meta.json 'also_run') is run with VERIF_REPO pointing there. Results go to seeded/RESULTS.json.
"""
import json, os, shutil, subprocess, sys, tempfile, time
from concurrent.futures import ThreadPoolExecutor

args = sys.argv[1:]
tier = "quick"; only = None; checks_override = None
if "--tier" in args: tier = args[args.index("--tier") + 1]
if "--only" in args: only = [a for a in args[args.index("--only") + 1:] if not a.startswith("--")]
if "--checks" in args: checks_override = args[args.index("--checks") + 1].split(",")
root = "/verif/seeded"
names = sorted(n for n in os.listdir(root) if os.path.isdir(os.path.join(root, n)))
if only: names = [n for n in names if n in only]
respath = os.path.join(root, "RESULTS.json")
results = json.load(open(respath)) if os.path.exists(respath) else {}
def run(cmd, **kw): return subprocess.run(cmd, capture_output=True, text=True, **kw)
def one(name):
    d = os.path.join(root, name)
    meta = json.load(open(os.path.join(d, "meta.json")))
    ids = checks_override or [meta["property"]] + meta.get("also_run", [])
    tmp = tempfile.mkdtemp(prefix="vfseedrun-"); tree = os.path.join(tmp, "repo")
    out = {}
    try:
        run(["git", "-C", "/repo", "worktree", "add", "-q", "--detach", tree, "HEAD"])
        ap = run(["git", "-C", tree, "apply", os.path.join(d, "patch.diff")])
        if ap.returncode: return name, {"error": "patch does not apply: " + ap.stderr[:200]}
        env = dict(os.environ, VERIF_REPO=tree, VERIF_EVIDENCE_DIR=os.path.join(tmp, "ev"), VERIF_OUT_DIR=os.path.join(tmp, "out"), VERIF_NPROC="8")
        for pid in ids:
            t0 = time.time()
            r = run(["/verif/check", pid, tier], env=env)
            buckets = [l.strip()[8:] for l in r.stdout.splitlines() if l.startswith("  bucket:")]
            out[pid] = {"exit": r.returncode, "caught": r.returncode == 1, "buckets": sorted(set(buckets))[:6], "tier": tier, "wall_s": round(time.time() - t0, 1)}
            if r.returncode == 2: out[pid]["stderr"] = r.stderr[-400:]
    finally:
        run(["git", "-C", "/repo", "worktree", "remove", "--force", tree]); shutil.rmtree(tmp, ignore_errors=True)
    return name, out
with ThreadPoolExecutor(2) as ex:
    for name, out in ex.map(one, names):
        results.setdefault(name, {}).update(out)
        print(name, {k: (v.get("exit"), v.get("buckets")) if isinstance(v, dict) else v for k, v in out.items()})
run(["git", "-C", "/repo", "worktree", "prune"])
json.dump(results, open(respath, "w"), indent=1, sort_keys=True)
