#!/venv/bin/python
"""False-alarm test: run every registered quick check against each behaviour-preserving refactoring kept under
/verif/benign/<name>/ (patch.diff + meta.json, produced by independent sub-agents who were asked for changes that keep
all observable behaviour). Every check must exit 0 on every one of them.

  tools/benign_run.py [--only scope-b1 ...] [--checks C01,C05] [--tier quick]
Each patch is applied to a scratch worktree of /repo HEAD (removed afterwards); results go to benign/RESULTS.json.
"""
import json, os, shutil, subprocess, sys, tempfile, time

args = sys.argv[1:]
tier = args[args.index("--tier") + 1] if "--tier" in args else "quick"
only = [a for a in args[args.index("--only") + 1:] if not a.startswith("--")] if "--only" in args else None
checks = args[args.index("--checks") + 1].split(",") if "--checks" in args else [f"C{i:02d}" for i in range(1, 20)]
root = "/verif/" + (args[args.index("--root") + 1] if "--root" in args else "benign")
names = sorted(n for n in os.listdir(root) if os.path.isdir(os.path.join(root, n)))
if only: names = [n for n in names if n in only]
respath = os.path.join(root, "RESULTS.json")
results = json.load(open(respath)) if os.path.exists(respath) else {}
def run(cmd, **kw): return subprocess.run(cmd, capture_output=True, text=True, **kw)
bad = 0
AUTO = "--auto" in args
ANCHORS = {}
if AUTO:
    # --auto: only the checks whose property is anchored in a file the patch touches (plus C03: anything may crash)
    for line in open("/verif/properties.jsonl"):
        p = json.loads(line); ANCHORS[p["id"]] = set(p["anchors"]["files"])
all_checks = checks
for name in names:
    tmp = tempfile.mkdtemp(prefix="vfbenign-"); tree = os.path.join(tmp, "repo")
    out = results.setdefault(name, {})
    if AUTO:
        touched = {l.split(" b/", 1)[1].strip() for l in open(os.path.join(root, name, "patch.diff")) if l.startswith("diff --git")}
        checks = [c for c in all_checks if ANCHORS.get(c, set()) & touched or c == "C03"]
    try:
        run(["git", "-C", "/repo", "worktree", "add", "-q", "--detach", tree, "HEAD"])
        ap = run(["git", "-C", tree, "apply", os.path.join(root, name, "patch.diff")])
        if ap.returncode:
            out["error"] = "patch does not apply: " + ap.stderr[:200]; print(name, out["error"]); continue
        out.pop("error", None)
        env = dict(os.environ, VERIF_REPO=tree, VERIF_EVIDENCE_DIR=os.path.join(tmp, "ev"), VERIF_OUT_DIR=os.path.join(tmp, "out"))
        for pid in checks:
            t0 = time.time()
            try:
                r = run(["/verif/check", pid, tier], env=env, timeout=3600)
                code, so, se = r.returncode, r.stdout, r.stderr
            except subprocess.TimeoutExpired:
                code, so, se = -1, "", "timeout"
            buckets = sorted({l.strip()[8:] for l in so.splitlines() if l.startswith("  bucket:")})[:6]
            out[pid] = {"exit": code, "buckets": buckets, "wall_s": round(time.time() - t0, 1)}
            if code != 0:
                bad += 1
                out[pid]["tail"] = (so[-600:] + "\n" + se[-600:])
                print(name, pid, "exit", code, buckets, flush=True)
        print(name, "done:", {p: out[p]["exit"] for p in checks if out[p]["exit"] != 0} or "all quiet", flush=True)
    finally:
        run(["git", "-C", "/repo", "worktree", "remove", "--force", tree]); shutil.rmtree(tmp, ignore_errors=True)
        json.dump(results, open(respath, "w"), indent=1, sort_keys=True)
run(["git", "-C", "/repo", "worktree", "prune"])
print("non-quiet results:", bad)
