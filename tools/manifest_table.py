NOTES = ("Every check: ./check <ID> quick|thorough ; exit 0 held / 1 VIOLATION / 2 harness error. "
         "Open known findings are listed in known_findings.json and printed as KNOWN-FINDING lines. "
         "VERIF_SEED selects the Hypothesis seeds (default 1).")
NOT_APPLICABLE = {}

add("C19", "bounded-exhaustive enumeration of profiles + Hypothesis generation, arithmetic oracle in exact rationals",
    "Every profile with total <= 60 (quick) / <= 110 (thorough) is checked against the statement's arithmetic clauses via the API, "
    "and the rendered text/Markdown summary is parsed and checked for each distinct shown triple; random profiles to 1e9 and "
    "real Codebase-derived profiles beyond. Complete inside the bound, sampling outside it.",
    "trusts the row/verdict parser of the rendered summary and Python's Fraction arithmetic")

add("C13", "bounded-exhaustive enumeration of pattern trees x sequences + Hypothesis, Brzozowski-derivative reference model",
    "All 1731 pattern trees with <= 5 nodes x all 364 sequences of length <= 5 (thorough: 10560 trees x 3280 sequences of length <= 7) "
    "are run through match, nfa_match and starts_with and compared with an independent derivative-based reference that is itself "
    "cross-checked against Python's re on every run; random larger trees/sequences beyond. Complete inside the bound.",
    "trusts vf/ref/regex.py (cross-checked against re) and, for sequences longer than 3, per-tree memoisation of the automaton build")

add("C14", "bounded-exhaustive enumeration (pattern trees and shipped header shapes x sequences) + Hypothesis, reference greedy matcher",
    "find_all is run on every non-nullable tree with <= 4 nodes x every sequence of length <= 6 (thorough 5 / 8) and on the header "
    "expressions captured from the seven language modules x every token-class sequence of length <= 6 (thorough 8); each result is "
    "checked clause by clause (bounds, tokens, language membership, longest, order, disjointness, coverage) against reference greedy "
    "ends computed by derivatives / a depth-counting scanner. Complete inside the bounds.",
    "trusts vf/ref/regex.py and the 40-line header-shape scanner in vf/props/c14.py; token classes are one representative per kind/value")

add("C15", "complete breadth-first exploration of matcher configurations x token classes with real Token objects (finite space), shortest witnesses as replays",
    "For all 7 languages every header and follow-up expression actually passed to the matcher is captured, compiled with the real "
    "subset construction, and every reachable (DFA state, Balanced depth class) configuration is fed every token class through "
    "Pattern.consume; ambiguity is detected both as the engine's error and by counting accepting transitions on deep copies. "
    "The space is finite and explored completely (exhaustive: true).",
    "depth >= 3 abstracted to 3; token classes are representatives of kind x distinguished value; predicates are captured with four probe inputs")

add("C07", "Hypothesis-generated codebases, independent recomputation of totals / profiles / folder tree (reference model)",
    "4800 (thorough 80000) generated codebases are built the way Scanner and ReportReader build them and every redundant view "
    "(language totals, grand totals, file profiles, folder profiles, tree entries) on the object and in the written JSON is "
    "compared with values recomputed from the plain data. Sampling of an unbounded space; all depths 0..6 and 1..7 languages occur.",
    "trusts the 40-line recomputation in vf/props/c07.py; paths are generated conflict-free by construction")
add("C08", "Hypothesis-generated reports with adversarial Unicode, round trip write -> json.loads -> ReportReader -> write",
    "4800 (thorough 80000) reports with quotes, backslashes, control, non-ASCII and astral characters in every string field are "
    "written pretty and compact, parsed with the standard json module, compared with the source data, read back with ReportReader "
    "field by field and re-written; the re-written text must equal the original up to the timestamp.",
    "trusts Python's json module as the definition of valid JSON; lone surrogates and repository tags are outside the domain")

add("C02", "exhaustive enumeration of lengths at every classification site + Hypothesis-generated source trees through check_command, single reference threshold table",
    "Every length 1..200 is classified at 11 independent sites (profiles, counters, colours, symbols, both findings renderers) and "
    "compared with one reference table; 640 (thorough 8000) generated multi-file, multi-language trees of flat functions with exact "
    "lengths go through check_command in both quiet modes, checking exit status, listing, order, symbols, summary count and silence.",
    "flat functions only in part B; colours observed as rich Style objects; check_command invoked in-process")

add("C18", "Hypothesis-generated report pairs and findings lists, rendered output parsed back and compared with the stored figures (differential text vs Markdown)",
    "2400 (thorough 48000) generated cases: current/previous reports with shared, added and removed languages, and findings lists "
    "around the 10-row cut-off, are rendered in text and Markdown (1 in 8 through report_command with files on disk); the tolerant "
    "row parser recovers every figure and annotation, which must equal the stored numbers / exact differences.",
    "trusts the row parsers in vf/props/c18.py; names are plain identifiers; locale C.UTF-8")

add("C16", "bounded-exhaustive enumeration of short texts per language + Hypothesis texts and corpus slices, reference = Pygments' own offsets with independent line/column arithmetic",
    "Every string of length <= 4 (thorough 5) over 19 symbols and every string of length <= 3 (thorough 4) over exotic line "
    "separators is lexed in all 7 languages with both comment settings and compared token by token (kind, text, line, column) with "
    "Pygments' raw offset stream; location_to_index must invert every position; corpus files whole / sliced / CRLF on top.",
    "trusts Pygments' (offset, type, text) stream as the source text's tokenisation and str.count/rfind for line arithmetic")

add("C01", "Hypothesis-driven grammar-based program generation in 7 languages with renderer-recorded ground truth (reference model from character spans)",
    "4480 (thorough 56000) programs drawn from the canonical-fragment grammar (nesting to depth 5, all header shapes of DESIGN 3.1, "
    "trivia, delimiter-bearing literals, bodies across the 15/30/60 thresholds) are analysed through scan_file (1 in 8 through "
    "scan_path on disk) and the complete list of (name, start, end, length) is compared with spans recorded while rendering. "
    "Every feature label must occur in a run (non-vacuity). Sampling of an unbounded grammar.",
    "trusts the renderer's span bookkeeping (vf/gen/programs.py); speaks only about the canonical grammar of DESIGN 3.1")

add("C17", "Hypothesis-driven program generation with marker/decoy decoration, metamorphic comparison of two renderings of one AST",
    "3360 (thorough 42000) canonical programs get a random subset of eligible functions marked (all comment styles, cases, spacings, "
    "trailing / leading position) plus decoys and stray marker comments elsewhere; the analysis of the marked rendering must equal "
    "the analysis of the equally long neutral rendering minus exactly the marked functions.",
    "relation only (never compares with an absolute expectation); eligible = not nested in and not enclosing a function")

add("C04", "metamorphic testing: Hypothesis insertion plans over token-safe boundaries of generated programs and a vendored real-world corpus, exhaustive single edits",
    "For generated canonical programs and 96 vendored real-world files in 7 languages, plans of 1..30 simultaneous blank / whitespace / "
    "comment-only lines (every comment style, any indentation), trailing comments and trailing blanks are applied at token-safe places "
    "decided on the lexer's own token spans; the analysis must return the same functions with equal lengths and columns and line numbers "
    "shifted by exactly the lines inserted above. Thorough tries every safe boundary x every style of every corpus file, and strips all trivia "
    "from generated programs. One open known finding (Pygments C/C++ function rule) is withheld by construction and pinned by replays.",
    "token-safety relies on Pygments' tokenisation of the base text; comment edits inside C/C++ declaration headers are excluded (known finding)")

add("C03", "fuzzing with structured mutation, token soups, cut points, depth templates and byte noise through four entry points; crash / hang oracle with a watchdog",
    "4179 (thorough ~58000) inputs per run: every header cut at the end of input, nesting 1..3000 deep, long flat files, Hypothesis "
    "mutations of canonical programs and corpus files, token soups and raw byte noise go through scan_file, scan_path + ReportWriter + "
    "json.loads, check_command under seven ways of naming the file (incl. from a sibling directory) and, for a sample, a real "
    "`python -m codelimit` process. Any escaping exception, non-0/1 exit status or watchdog expiry is a violation.",
    "watchdog 60 s per case (400 s for templates deeper than 1000); option-free command lines only in the subprocess sample")
add("C05", "fuzzing (same malformed-input generators as C03) with an invariant oracle computed from an independent Pygments tokenisation",
    "5600 (thorough ~60000) valid and malformed inputs per run; every measurement the analysis returns is checked for line / column "
    "bounds, start at a code token, end just past a code token, name = an identifier token inside the span, 1 <= length <= "
    "code-bearing lines of the span, source order, distinct starts, and loc = sum of lengths at scan_path.",
    "trusts Pygments' raw token stream for 'code token' and 'identifier token'; inputs on which the analysis raises are left to C03")

add("C11", "Hypothesis-generated directory trees and exclusion lists written to disk, reference gitignore matcher for five unambiguous pattern classes, call counter wrapped around the analyser",
    "3200 (thorough 48000) generated trees (hidden, built-in-excluded, unsupported, deep files) x exclusion lists supplied by option, "
    ".codelimit.yml and .gitignore x six spellings of the root are scanned with scan_path; the resulting key set, languages and "
    "checksums must equal the set computed by an independent reference (itself cross-checked against pathspec on every run), and the "
    "wrapped _analyze_file must have been called for exactly those files, once each.",
    "only the five modelled gitignore classes; extension table restricted to unambiguous Pygments mappings; built-in list transcribed in the reference")
add("C12", "differential testing of check_command against scan_path on Hypothesis-generated trees (all ways of reaching each file)",
    "640 (thorough 12800) generated trees with flat functions around the 30/60 thresholds, canonical programs, malformed and Latin-1 files, "
    "arbitrary gitignore patterns (incl. negation, **, brackets) and ambiguous header extensions: for relative files, relative and absolute "
    "directories and the root, the parsed output of check must list exactly scan's functions > 30 for the files scan analyses there, "
    "with equal positions, order, files-checked count and exit status.",
    "scan_path is the reference side (its own correctness is C01/C11); hidden files or directories named directly are unconstrained")

add("C09", "stateful / model-based testing: Hypothesis RuleBasedStateMachine over edit-and-scan histories plus bounded-exhaustive operation sequences; differential oracle (cached scan vs fresh scan) and a cache model",
    "All sequences of up to 2 (thorough 3) operations from a reduced alphabet (write / delete / rename / touch / swap / exclusion change / "
    "other-version or version-less cache / altered cache entries), with and without an intermediate scan, and 240 (thorough 4800) "
    "rule-based histories of up to 25 (50) steps run on a real temp tree through scan_command; after every scan the written cache must equal a "
    "from-scratch scan, every file not covered by a same-version, same-checksum entry must have reached the wrapped analyser, and "
    "report / findings must refuse other-version caches.",
    "'fresh' is the tool's own scan without cache (correctness of the measurements is C01's business); small universe of 6 paths x 5 contents")

add("C10", "fault enumeration: every truncation offset of the cache file and every key-path fault, each followed by a real scan; Hypothesis fault / edit / scan sequences; differential oracle against the fresh report",
    "For 2 (thorough 6 + one 60-file) trees the cache a scan wrote is cut at every byte offset 0..len, replaced by every small JSON document "
    "and byte garbage, has every member deleted and every value replaced by each wrong-typed value, and its directory is stripped of file / "
    "markers; after each fault scan_command must finish with exit 0 and leave a cache that parses, is accepted by ReportReader and equals "
    "the from-scratch report. Complete over the enumerated fault points of those trees.",
    "crash = prefix of the valid bytes (single write_text); right-typed wrong values under a matching checksum are out of scope",
    category="fault_enumeration")

add("C06", "differential testing over Hypothesis-drawn histories executed in fresh subprocesses under drawn PYTHONHASHSEED values; baseline = each file analysed alone in a forked pristine interpreter",
    "80 (thorough 860) histories per run: ordered multisets of ~150 on-disk files (real-world, generated, malformed, byte-identical "
    "contents under different languages) analysed one after another in a single fresh process under a drawn hash seed, and tree-scan "
    "sessions (T, a foreign tree with its own exclusions, T again, T with permuted os.walk order); every per-file digest and every "
    "report digest must equal its isolated hash-seed-0 baseline.",
    "hash seeds are sampled; digests cover language, loc and all measurement fields (exceptions by type)")
