"""Usage: PYTHONPATH=<tree> python scan_dump.py <filelist> <out.json> : measurements of every file under one tree."""
import sys, json, signal
from pygments.lexers import get_lexer_for_filename
from codelimit.common.lexer_utils import lex
from codelimit.common.Scanner import scan_file
from codelimit.languages import Languages
class TO(Exception): pass
def h(*a): raise TO()
signal.signal(signal.SIGALRM, h)
out = {}
for f in open(sys.argv[1]).read().split("\n"):
    if not f: continue
    try:
        try: code = open(f).read()
        except UnicodeDecodeError: code = open(f, encoding="latin-1").read()
        lexer = get_lexer_for_filename(f)
        lang = Languages.by_name.get(lexer.__class__.name)
        if not lang: continue
        signal.alarm(60)
        ms = scan_file(lex(lexer, code, False), lang)
        signal.alarm(0)
        out[f] = [[m.unit_name, m.start.line, m.start.column, m.end.line, m.end.column, m.value] for m in ms]
    except TO:
        out[f] = "TIMEOUT"
    except Exception as e:
        signal.alarm(0)
        out[f] = f"EXC {type(e).__name__}: {e}"
json.dump(out, open(sys.argv[2], "w"))
