#!/venv/bin/python
"""Sensitivity experiment: apply a mutation to a scratch copy of /repo, run the pinned suite and some checks.

  tools/trymut.py --patch file.diff  C01 C05 ...          (git-style patch)
  tools/trymut.py --sub path 'old' 'new'  C07 ...          (single textual replacement in codelimit/<path>)
Options: --tier thorough, --keep, --no-suite
Prints: suite result, and per check: exit code + VIOLATION lines. The scratch copy is removed afterwards.
"""
import os, shutil, subprocess, sys, tempfile

args = sys.argv[1:]
tier = "quick"; keep = False; suite = True
patch = None; sub = None
ids = []
i = 0
while i < len(args):
    a = args[i]
    if a == "--patch": patch = args[i+1]; i += 2
    elif a == "--sub": sub = args[i+1:i+4]; i += 4
    elif a == "--tier": tier = args[i+1]; i += 2
    elif a == "--keep": keep = True; i += 1
    elif a == "--no-suite": suite = False; i += 1
    else: ids.append(a); i += 1
tmp = tempfile.mkdtemp(prefix="vfmut-")
tree = os.path.join(tmp, "repo")
try:
    subprocess.run(["git", "-C", "/repo", "worktree", "add", "-q", "--detach", tree, "HEAD"], check=True)
    # carry over uncommitted state of /repo's working tree as well
    diff = subprocess.run(["git", "-C", "/repo", "diff", "HEAD"], capture_output=True, text=True).stdout
    if diff.strip():
        subprocess.run(["git", "-C", tree, "apply"], input=diff, text=True, check=True)
    if patch:
        r = subprocess.run(["git", "-C", tree, "apply", os.path.abspath(patch)], capture_output=True, text=True)
        if r.returncode: print("PATCH DOES NOT APPLY:", r.stderr); sys.exit(3)
    if sub:
        p = os.path.join(tree, "codelimit", sub[0]); s = open(p).read()
        if sub[1] not in s: print("--sub: old text not found"); sys.exit(3)
        open(p, "w").write(s.replace(sub[1], sub[2], 1))
    if suite:
        r = subprocess.run(["/venv/bin/python", "-m", "pytest", "-q", "-p", "no:cacheprovider", "-x"], cwd=tree, capture_output=True, text=True)
        print("SUITE:", r.stdout.strip().splitlines()[-1] if r.stdout.strip() else r.stderr[-300:])
    env = dict(os.environ, VERIF_REPO=tree, VERIF_EVIDENCE_DIR=os.path.join(tmp, "ev"), VERIF_OUT_DIR=os.path.join(tmp, "out"))
    for pid in ids:
        r = subprocess.run(["/verif/check", pid, tier], env=env, capture_output=True, text=True)
        lines = [l for l in r.stdout.splitlines() if l.startswith(("VIOLATION", "  bucket", "KNOWN", "["))]
        print(f"{pid}: exit={r.returncode}")
        for l in lines[:14]: print("   ", l)
        if r.returncode == 2: print(r.stderr[-1500:])
finally:
    if keep: print("kept", tmp)
    else:
        subprocess.run(["git", "-C", "/repo", "worktree", "remove", "--force", tree], capture_output=True)
        shutil.rmtree(tmp, ignore_errors=True)
        subprocess.run(["git", "-C", "/repo", "worktree", "prune"], capture_output=True)
