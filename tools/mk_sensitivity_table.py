#!/venv/bin/python
"""Regenerates the table of seeded changes in DESIGN.md (between the SEEDED-TABLE markers) from seeded/*/meta.json and
seeded/RESULTS.json."""
import json, os, re
root = "/verif/seeded"
res = json.load(open(f"{root}/RESULTS.json"))
rows = []
for name in sorted(n for n in os.listdir(root) if os.path.isdir(f"{root}/{n}")):
    meta = json.load(open(f"{root}/{name}/meta.json"))
    cut = lambda t, n: (t[: n - 3] + "...") if len(t) > n else t
    summ = cut(meta.get("summary", "").replace("|", "/").replace("\n", " "), 170)
    needs = cut(meta.get("needs", "").replace("|", "/").replace("\n", " "), 150)
    r = res.get(name, {})
    caught = [f"{p}: {', '.join(v['buckets'][:2])}" for p, v in r.items() if isinstance(v, dict) and v.get("caught")]
    if not caught and meta.get("neutralised_by"):
        caught = [f"no longer a violation since fix {meta['neutralised_by']['commit']} (its demonstration passes with the change applied); caught by {meta['property']} before that fix"]
    rows.append(f"| {name} | {summ} | {needs} | {'; '.join(caught) or 'MISSED'} |")
table = "| seeded change | what it does | what it needs to manifest | caught by (quick tier): first buckets |\n|---|---|---|---|\n" + "\n".join(rows)
p = "/verif/DESIGN.md"
s = open(p).read()
b, e = "<!-- SEEDED-TABLE-BEGIN -->", "<!-- SEEDED-TABLE-END -->"
if b in s:
    s = s[: s.index(b) + len(b)] + "\n" + table + "\n" + s[s.index(e):]
else:
    i = s.index("| seeded change | what it does |")
    s = s[:i] + b + "\n" + table + "\n" + e + "\n"
open(p, "w").write(s)
missed = [r for r in rows if r.endswith("MISSED |")]
print(len(rows), "rows;", len(missed), "missed")
