#!/venv/bin/python
"""Validate a sub-agent's seeded change and keep it under /verif/seeded/<PID>-<mK>/.

  tools/seed_import.py C07 m1 [--src /tmp/seed/out]
Confirms, in a scratch worktree of /repo HEAD (removed afterwards): the patch applies, the pinned suite passes with
it, the demonstration passes without it and fails with it. Only then are patch.diff, demo.py and meta.json copied.
"""
import json, os, shutil, subprocess, sys, tempfile

pid, mk = sys.argv[1], sys.argv[2]
src = "/tmp/seed/out"
if "--src" in sys.argv:
    src = sys.argv[sys.argv.index("--src") + 1]
tag = sys.argv[sys.argv.index("--tag") + 1] if "--tag" in sys.argv else ""
d = os.path.join(src, pid, mk)
tmp = tempfile.mkdtemp(prefix="vfseed-")
tree = os.path.join(tmp, "repo")
PY = "/venv/bin/python"
def run(cmd, **kw):
    return subprocess.run(cmd, capture_output=True, text=True, **kw)
try:
    run(["git", "-C", "/repo", "worktree", "add", "-q", "--detach", tree, "HEAD"])
    env = dict(os.environ, PYTHONPATH=tree, PYTHONWARNINGS="ignore", PYTHONIOENCODING="utf-8", LC_ALL="C.UTF-8", PYTHONUTF8="1")
    clean = run([PY, os.path.join(d, "demo.py")], cwd="/tmp", env=env, timeout=900)
    ap = run(["git", "-C", tree, "apply", os.path.join(d, "patch.diff")])
    if ap.returncode:
        print(f"{pid}-{mk}: PATCH DOES NOT APPLY: {ap.stderr.strip()[:300]}"); sys.exit(1)
    suite = run([PY, "-m", "pytest", "-q", "-p", "no:cacheprovider"], cwd=tree, timeout=900)
    suite_line = suite.stdout.strip().splitlines()[-1] if suite.stdout.strip() else "?"
    mut = run([PY, os.path.join(d, "demo.py")], cwd="/tmp", env=env, timeout=900)
    ok = clean.returncode == 0 and mut.returncode != 0 and suite.returncode == 0
    print(f"{pid}-{tag}{mk}: demo clean={clean.returncode} mutated={mut.returncode} suite='{suite_line}' -> {'KEEP' if ok else 'REJECT'}")
    if not ok:
        print(clean.stdout[-300:], clean.stderr[-300:]); sys.exit(1)
    dst = f"/verif/seeded/{pid}-{tag}{mk}"
    os.makedirs(dst, exist_ok=True)
    shutil.copy(os.path.join(d, "patch.diff"), dst); shutil.copy(os.path.join(d, "demo.py"), dst)
    meta = json.load(open(os.path.join(d, "meta.json")))
    head = run(["git", "-C", "/repo", "rev-parse", "--short", "HEAD"]).stdout.strip()
    meta["property"] = pid
    meta["verified"] = {
        "base_commit": head,
        "ran": [f"git apply patch.diff (scratch worktree of /repo at {head})",
                "/venv/bin/python -m pytest -q -p no:cacheprovider  -> " + suite_line,
                f"PYTHONPATH=<clean tree> python demo.py -> exit {clean.returncode}",
                f"PYTHONPATH=<patched tree> python demo.py -> exit {mut.returncode}: " + (mut.stdout + mut.stderr).strip().splitlines()[-1][:300]],
        "origin": "independent sub-agent given only the property text and a scratch worktree",
    }
    json.dump(meta, open(os.path.join(dst, "meta.json"), "w"), indent=1)
finally:
    run(["git", "-C", "/repo", "worktree", "remove", "--force", tree])
    shutil.rmtree(tmp, ignore_errors=True)
    run(["git", "-C", "/repo", "worktree", "prune"])
