#!/bin/bash
# Run every registered quick (or $1) check on /repo; print one line per check. Used after every change to /repo or /verif.
tier="${1:-quick}"; shift
ids="${@:-C01 C02 C03 C04 C05 C06 C07 C08 C09 C10 C11 C12 C13 C14 C15 C16 C17 C18 C19}"
cd "$(dirname "$0")/.."
fail=0
for id in $ids; do
  s=$(date +%s)
  out=$(./check $id $tier 2>&1); code=$?
  e=$(date +%s)
  line=$(echo "$out" | grep "^\[$id" | tail -1)
  echo "$id exit=$code $((e-s))s ${line}"
  if [ $code -ne 0 ]; then fail=1; echo "$out" | grep -E "^VIOLATION|bucket|HARNESS" | head -8; fi
done
exit $fail
