"""Malformed inputs (DESIGN 3.2): structured mutation of valid programs, token soups, targeted templates, byte noise."""
from __future__ import annotations

from hypothesis import strategies as st

from vf.gen import programs as P

# lexical alphabets: keywords used by the patterns, identifiers, all bracket kinds, arrows, comment leaders, string
# delimiters, newlines, indentation runs, backslash-newline, template pieces
COMMON = ["x", "foo", "bar1", "(", ")", "{", "}", "[", "]", ";", ",", ".", ":", "=", "=>", "->", "<", ">", "+", "*", "\n", "\n", " ", "  ", "    ", "\t",
          "\"", "'", "\\", "\\\n", "0", "1.5", "//", "/*", "*/", "#", "\r\n", "\x0c", "é", "\u2028"]
PER_LANG = {
    "C": ["int", "void", "static", "struct", "if", "else", "for", "while", "return", "#define", "#include", "typedef", "switch", "case", "#if 0\n", "#endif\n", "#else\n"],
    "C++": ["int", "void", "class", "struct", "namespace", "template", "typename", "::", "operator", "const", "virtual", "if", "for", "return", "auto", "[&]", "#if 0\n", "#endif\n"],
    "C#": ["class", "namespace", "public", "static", "void", "int", "async", "using", "new", "if", "else", "foreach", "return", "=>", "get;", "set;"],
    "Java": ["class", "interface", "public", "static", "void", "int", "throws", "new", "record", "@Override", "@Ann", "if", "else", "return", "->", "extends"],
    "JavaScript": ["function", "const", "let", "async", "await", "class", "=>", "return", "if", "else", "for", "of", "`", "${", "static", "new", "get",
                   "function:", "const:", "{function: 1}", ".function", ".const", "set", "yield", "<!--", "-->"],
    "TypeScript": ["function", "const", "let", "async", "class", "interface", "=>", "return", ": number", ": string", "public", "private", "`", "${", "abstract", "?",
                   "function:", "const:", "{function: 1}", "async:", "get", "set", "of", "type", "declare", "enum", "namespace", "readonly", "as"],
    "Python": ["def", "async", "class", "lambda", "return", "if", "else:", "elif", "for", "in", "while", "try:", "except", "with", "as", "pass", "@", '"""', "'''", "->", "import"],
}


def alphabet(lang):
    return COMMON + PER_LANG[lang]


@st.composite
def soups(draw, lang, max_tokens=60):
    toks = draw(st.lists(st.sampled_from(alphabet(lang)), min_size=0, max_size=max_tokens))
    sep = draw(st.sampled_from([" ", " ", "", "\n"]))
    return sep.join(toks)


def token_offsets(lang, text):
    from pygments.lexers import get_lexer_by_name

    return [off for off, _, val in get_lexer_by_name(P.LEXER[lang]).get_tokens_unprocessed(text) if val]


def token_spans(lang, text):
    from pygments.lexers import get_lexer_by_name

    return [(off, off + len(val)) for off, _, val in get_lexer_by_name(P.LEXER[lang]).get_tokens_unprocessed(text) if val.strip()]


FLIP = {"(": ")", ")": "(", "{": "}", "}": "{", "[": "]", "]": "["}


@st.composite
def mutations(draw, lang, text):
    """One structured mutation of a valid text. -> (kind, new_text)"""
    spans = token_spans(lang, text)
    lines = text.split("\n")
    kind = draw(st.sampled_from(["prefix", "suffix", "del_token", "del_line", "dup_token", "dup_line", "swap_tokens", "swap_lines", "flip_bracket",
                                 "insert_bracket", "del_range", "dedent_line", "indent_line", "join_lines", "strip_block", "strip_block"]))
    if not spans:
        return "empty", text
    if kind == "strip_block":
        # a header that loses its body: '{ ... }' -> ';'   /   'def f(): <suite>' -> 'def f(): pass'
        if lang == "Python":
            idx = [i for i, ln in enumerate(lines) if ln.lstrip().startswith(("def ", "async def ")) and ln.rstrip().endswith(":")]
            if idx:
                i = draw(st.sampled_from(idx))
                ind = len(lines[i]) - len(lines[i].lstrip())
                j = i + 1
                while j < len(lines) and (not lines[j].strip() or len(lines[j]) - len(lines[j].lstrip()) > ind):
                    j += 1
                return kind, "\n".join(lines[:i] + [lines[i] + " pass"] + lines[j:])
        else:
            opens = [s for s in spans if text[s[0]:s[1]] == "{"]
            if opens:
                o = draw(st.sampled_from(opens))
                depth, k = 0, None
                for s2 in spans:
                    if s2[0] < o[0]:
                        continue
                    t = text[s2[0]:s2[1]]
                    if t == "{":
                        depth += 1
                    elif t == "}":
                        depth -= 1
                        if depth == 0:
                            k = s2
                            break
                if k:
                    return kind, text[: o[0]] + ";" + text[k[1]:]
        kind = "del_range"
    if kind == "prefix":
        s = draw(st.sampled_from(spans))
        return kind, text[: draw(st.sampled_from([s[0], s[1]]))]
    if kind == "suffix":
        s = draw(st.sampled_from(spans))
        return kind, text[s[0] :]
    if kind == "del_token":
        s = draw(st.sampled_from(spans))
        return kind, text[: s[0]] + text[s[1] :]
    if kind == "dup_token":
        s = draw(st.sampled_from(spans))
        return kind, text[: s[1]] + " " + text[s[0] : s[1]] + text[s[1] :]
    if kind == "swap_tokens" and len(spans) > 1:
        i = draw(st.integers(0, len(spans) - 2))
        a, b = spans[i], spans[i + 1]
        return kind, text[: a[0]] + text[b[0] : b[1]] + text[a[1] : b[0]] + text[a[0] : a[1]] + text[b[1] :]
    if kind == "flip_bracket":
        br = [s for s in spans if text[s[0] : s[1]] in FLIP]
        if br:
            s = draw(st.sampled_from(br))
            return kind, text[: s[0]] + FLIP[text[s[0] : s[1]]] + text[s[1] :]
    if kind == "insert_bracket":
        s = draw(st.sampled_from(spans))
        return kind, text[: s[0]] + draw(st.sampled_from(list(FLIP) + ["=>", "\"", "'", "/*", "`"])) + text[s[0] :]
    if kind == "del_range":
        i = draw(st.integers(0, len(spans) - 1))
        j = min(len(spans) - 1, i + draw(st.integers(1, 12)))
        return kind, text[: spans[i][0]] + text[spans[j][1] :]
    i = draw(st.integers(0, max(0, len(lines) - 1)))
    if kind == "del_line":
        return kind, "\n".join(lines[:i] + lines[i + 1 :])
    if kind == "dup_line":
        return kind, "\n".join(lines[: i + 1] + lines[i:])
    if kind == "swap_lines" and len(lines) > 1:
        i = min(i, len(lines) - 2)
        return kind, "\n".join(lines[:i] + [lines[i + 1], lines[i]] + lines[i + 2 :])
    if kind == "dedent_line":
        return kind, "\n".join(lines[:i] + [lines[i].lstrip()] + lines[i + 1 :])
    if kind == "indent_line":
        return kind, "\n".join(lines[:i] + ["        " + lines[i]] + lines[i + 1 :])
    if kind == "join_lines" and len(lines) > 1:
        i = min(i, len(lines) - 2)
        return kind, "\n".join(lines[:i] + [lines[i] + " " + lines[i + 1].lstrip()] + lines[i + 2 :])
    return "identity", text


def header_cuts(lang):
    """Headers at the end of input, cut after each of their tokens."""
    heads = {
        "C": "static int name(int a, char *b) {",
        "C++": "int Widget::name(int a = g(1), std::vector<int> v = {1, 2}) const {",
        "C#": "public static async Task<int> Name([Attr(1)] int a) {",
        "Java": "public <T> List<T> name(@Ann(1) int x) throws IOException, SQLException {",
        "JavaScript": "const name = async (cb = () => 0, b = {x: 1}) => {",
        "TypeScript": "private async name(a: number, cb: (x: number) => void): Promise<void> {",
        "Python": "async def name(a, b=(1, (2, 3)), *args, **kwargs) -> Dict[str, int]:",
    }
    extra = {"JavaScript": ["function name(a = {x: 1}) {", "x = (arr.map(a => a.b))", "const f = (cb = () => 0) => {", "x = {function: 1, const: 2};", "o.function(1) {", "o.const = (a) => {",
                            "const r = (function (a) { return a; })(() => 1);", "x = (a)(b => 1);", "y = async (a)(b)(c => { return c; }) => {"],
             "TypeScript": ["function name(p: number): string {", "const f = (cb: (x) => void) => {", "c ? f(a) : g(a)", "x = {function: 1, const: 2, async: 3};",
                            "interface I { function: number; const(a): void; }", "o.function(1) {",
                            "const r = (function (a: number) { return a; })(() => 1);", "x = (a)(b => 1);"],
             "Python": ["def f(", "def f()", "def f():", "def f(a=\"(\"):", "class A:\n    def m(self"],
             "Java": ["void f() throws", "new Foo() {", "record P(int x) {"],
             "C": ["for_each(x, y) {", "int f(int (*cb)(int)"], "C++": ["bool operator()(T* l)", "template <typename T> T f(T a"], "C#": ["else if (x)\n{", "int Local(int b) {"]}
    out = []
    for h in [heads[lang]] + extra.get(lang, []):
        offs = token_offsets(lang, h) + [len(h)]
        for o in offs:
            out.append(h[:o])
            out.append("x = 1\n" + h[:o] if lang == "Python" else "int y;\n" + h[:o])
        out.append(h + "\n")
    return sorted(set(out))


def bodiless_templates(lang):
    """Header-shaped matches without a body of their own, before / after sibling blocks."""
    if lang == "Python":
        return ["def o():\n    def a():\n        x = 1\n    def b(): pass\n", "def o():\n    def b(): pass\n    def a():\n        x = 1\n",
                "class A:\n    def a(self):\n        x = 1\n    def b(self): ...\n", "def a():\n    x = 1\ndef b(): pass\n"]
    if lang == "TypeScript":
        return ["class A {\n  m(a: number): void {\n    x;\n  }\n  n(a: number): void;\n}\n", "class A {\n  n(a: number): void;\n  m(a: number): void {\n    x;\n  }\n}\n",
                "function f(c) {\n  if (c) {\n    y;\n  }\n  return c ? g(a) : h(a);\n}\n", "function f(c) {\n  const r = c ? g(a) : h(a);\n  if (c) {\n    y;\n  }\n}\n",
                "interface I {\n  m(a: number): void;\n}\nfunction f() {\n  x;\n}\n", "abstract class A {\n  m() {\n    x;\n  }\n  abstract n(): void;\n}\n"]
    if lang == "Java":
        return ["class A {\n  void m() {\n    x();\n  }\n  abstract void n();\n}\n", "interface I {\n  void n() throws E;\n}\n", "class A {\n  void m() throws E\n}\n"]
    if lang == "JavaScript":
        return ["function f() {\n  if (c) {\n    y;\n  }\n  g(a)\n}\n", "class A {\n  m() {\n    x;\n  }\n  n()\n}\n"]
    return ["void m() {\n  x();\n}\nvoid n();\n", "struct s {\n  void m() {\n    x();\n  }\n  void n();\n};\n", "void n()\n"]


def continuation_templates(lang):
    """A backslash-newline at every blank and at every line end (one at a time) of a few small sources: legal odd layouts
    ('async \\' newline 'def f():'), joined lines ('x = 1 + \\' newline 'def f(a):') and plain soup."""
    from vf.harness import tree

    bases = {
        "Python": ["async def f(a):\n    return a\n", "x = 1 +\ndef f(a, b):\n    y = a\n    return y\n", "class K:\n    def m(self):\n        pass\n    async def n(self):\n        pass\n",
                   "def o():\n    def i(a):\n        return a\n    return i\n"],
    }.get(lang) or [tree.flat_file(lang, [3, 2]), "#define M(a) a\n" + tree.flat_file(lang, [2]) if lang in ("C", "C++") else tree.flat_file(lang, [4])]
    out = []
    for base in bases:
        for i, ch in enumerate(base):
            if ch == " " and (i == 0 or base[i - 1] != " "):
                out.append(base[:i] + " \\\n" + base[i + 1:].lstrip(" "))
                out.append(base[:i] + " \\\n" + base[i:])
            elif ch == "\n":
                out.append(base[:i] + " \\" + base[i:])
    return list(dict.fromkeys(out))


def deep_templates(lang, depth):
    """Deep brackets / blocks / nested functions."""
    out = []
    out.append(("deep_parens", "f" + "(" * depth + ")" * depth + (":" if lang == "Python" else " {}")))
    out.append(("deep_open_parens", "f" + "(" * depth))
    if lang == "Python":
        body = ""
        for i in range(min(depth, 1200)):
            body += " " * i + f"def f{i}(a):\n"
        body += " " * min(depth, 1200) + "pass\n"
        out.append(("deep_nested_defs", body))
        out.append(("deep_brackets", "x = " + "[" * depth + "]" * depth + "\n"))
    else:
        out.append(("deep_blocks", "void f() " + "{" * depth + "}" * depth))
        out.append(("deep_open_blocks", "void f() " + "{" * depth))
        fn = {"JavaScript": "function f{i}() {{", "TypeScript": "function f{i}(): void {{"}.get(lang, "void f{i}() {{")
        out.append(("deep_nested_functions", "\n".join(fn.format(i=i) for i in range(depth)) + "\n" + "}\n" * depth))
        out.append(("deep_calls", "void f() { " + "g(" * depth + ")" * depth + "; }"))
    return out


def long_flat(lang, n):
    if lang == "Python":
        return "def f(a):\n" + "".join(f"    a += {i}\n" for i in range(n))
    return "void f(int a) {\n" + "".join(f"  a += {i};\n" for i in range(n)) + "}\n"


NOISE_BYTES = [b"\xff", b"\xfe", b"\x80", b"\xc3\x28", b"\xe2\x82", b"\xf0\x9f", b"\xef\xbb\xbf", b"\x00", b"\x81", b"\x8d", b"\x8f", b"\x90", b"\x9d", b"\xa0", b"\xe9",
               b"\r", b"\r\n", b"\x0c", b"\x1a"]


@st.composite
def noisy_bytes(draw, text):
    """A valid program with raw bytes inserted at random offsets (identifiers, strings, comments, anywhere)."""
    data = text.encode("utf-8")
    n = draw(st.integers(1, 6))
    for _ in range(n):
        pos = draw(st.integers(0, len(data)))
        data = data[:pos] + draw(st.sampled_from(NOISE_BYTES)) + data[pos:]
    mode = draw(st.sampled_from(["asis", "asis", "crlf", "cr", "bom"]))
    if mode == "crlf":
        data = data.replace(b"\n", b"\r\n")
    elif mode == "cr":
        data = data.replace(b"\n", b"\r")
    elif mode == "bom":
        data = b"\xef\xbb\xbf" + data
    return data


def decode_like_tool(data: bytes) -> str:
    """What the tool's reader yields for these bytes: text mode with universal newlines, UTF-8 (locale) then Latin-1."""
    import io

    try:
        return io.TextIOWrapper(io.BytesIO(data), encoding="utf-8").read()
    except UnicodeDecodeError:
        return io.TextIOWrapper(io.BytesIO(data), encoding="latin-1").read()
