"""Sources whose functions end in a token that spans lines."""

TQ = '"' * 3
TS = "'" * 3


def multiline_last_token_templates(lang):
    """Functions whose last token spans lines (Python: the suite ends with a triple-quoted literal, also one shared by a
    nested function that is its parent's last statement, text continuing in column 1, a backslash continuation at the end
    of the file); for the brace languages multi-line literals / comments directly before the closing brace."""
    if lang == "Python":
        lit = [f"{TQ}doc\n        more{TQ}", f"{TQ}a\nb{TQ}", f"{TS}x\n\n{TS}", f"{TQ}a\n{TQ}", "f" + f"{TQ}{{x}}\n  y{TQ}"]
        out = []
        for q in lit:
            out += [
                f"def f(a):\n    x = 1\n    {q}\n",
                f"def f(a):\n    return {q}\n",
                f"def o(a):\n    def i(b):\n        x = 1\n        {q}\n",
                f"def o(a):\n    y = 2\n    def i(b):\n        return {q}\n",
                f"class K:\n    def m(self):\n        def i(b):\n            {q}\n",
                f"def o(a):\n    def i(b):\n        {q}\ndef p(c):\n    return c\n",
                f"async def o(a):\n    async def i(b):\n        await g({q})\n    return {q}\n",
            ]
        out += ["def f(a):\n    x = 1 + \\\n", "def o(a):\n    def i(b):\n        return b + \\\n", "def f(a):\n    x = (1,\n2,\n3)\n", "def o():\n    def i():\n        return [1,\n 2]\n"]
        return out + [t.replace("\n", "\r\n") for t in out[:8]]
    tpl = {"JavaScript": "`a\n${b}\nc`", "TypeScript": "`a\n${b}\nc`", "Java": f"{TQ}\n  text\n  {TQ}", "C#": '@"a\nb"', "C++": 'R"(a\nb)"', "C": '"a\\\nb"'}[lang]
    head = {"JavaScript": "function f(a) {", "TypeScript": "function f(a: number): string {", "Java": "class A {\n  String f(int a) {", "C#": "class A {\n  string F(int a) {",
            "C++": "const char* f(int a) {", "C": "const char* f(int a) {"}[lang]
    tail = "\n}\n" if lang in ("Java", "C#") else "\n"
    return [f"{head}\n  return {tpl};\n}}{tail}", f"{head}\n  return {tpl}; }}{tail}", f"{head}\n  x = {tpl}\n}}{tail}", f"{head}\n  /* a\n  b */ }}{tail}", f"{head} return {tpl}"]
