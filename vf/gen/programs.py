"""Canonical programs with ground truth (DESIGN 3.1) for C, C++, C#, Java, JavaScript, TypeScript, Python.

    ast   = gen_program(rnd, lang, size)        rnd: random.Random-like (Hypothesis st.randoms()), ast is JSON-able
    rd    = render(ast)                          -> Rendered(text, funcs, parts)
    truth = expected(rd, reading)                -> [(name, sl, sc, el, ec, length)] in source order

Ground truth is computed from character spans recorded while rendering, never from the implementation: every piece of
emitted text carries its kind (code / whitespace / comment) and the stack of functions whose span contains it.

AST nodes (dicts, key "k"):
  prog   {lang, items, indent}
  func   {name, shape, is_async, prefix_line, prefix, params, hdr_lines, suffix, brace_next, body, tc_open, tc_close}
  cont   {head, items, brace_next, tail}            class / struct / namespace / interface / local class / anonymous class
  s      {t, tc}                                     one-line statement
  m      {lines}                                     multi-line statement (continuation lines indented deeper)
  c      {head, body, orelse, else_head, brace_next} control statement
  blk    {head, body, tail}                          initialiser / anonymous function / lambda / macro block
  blank  {}            cmt {style, lines}            trivia
"""
from __future__ import annotations

from dataclasses import dataclass, field

BRACE_LANGS = ("C", "C++", "C#", "Java", "JavaScript", "TypeScript")
LANGS = BRACE_LANGS + ("Python",)
LEXER = {"C": "c", "C++": "cpp", "C#": "csharp", "Java": "java", "JavaScript": "javascript", "TypeScript": "typescript", "Python": "python"}
NESTS = {"C": False, "C++": True, "C#": True, "Java": True, "JavaScript": True, "TypeScript": True, "Python": True}

NAMES = ["alpha", "beta", "gamma", "delta", "compute", "render", "update", "process", "helper", "build", "parse",
         "handle", "reduce", "visit", "emit", "apply", "merge", "split", "scan", "load"]
VARS = ["x", "y", "z", "acc", "idx", "tmp", "val", "cur"]


# =========================================================================== rendering


@dataclass
class Rendered:
    text: str
    funcs: list  # dicts: id, name, start, end (char offsets; end exclusive), async_start (or None), parent
    parts: list  # (offset, text, kind, owners tuple)
    labels: set = field(default_factory=set)


class Writer:
    def __init__(self, unit):
        self.unit = unit
        self.level = 0
        self.parts = []
        self.off = 0
        self.owners = []
        self.funcs = []
        self.col0 = True
        self.line_start = 0
        self.variant = "marked"

    def _put(self, text, kind):
        if not text:
            return
        self.parts.append((self.off, text, kind, tuple(self.owners)))
        self.off += len(text)
        if "\n" in text:
            self.line_start = self.off - (len(text) - text.rfind("\n") - 1)
        self.col0 = text.endswith("\n")

    def column(self):
        """0-based column of the next character on the current line"""
        return self.off - self.line_start

    def indent(self, extra=0):
        if self.col0:
            self._put(self.unit * (self.level + extra), "w")

    def code(self, text):
        assert "\n" not in text and text == text.strip() and text, repr(text)
        fid = self.owners[-1] if self.owners else None
        if fid is not None:
            f = self.funcs[fid]
            if f["start"] is None:
                f["start"] = self.off
        self._put(text, "c")
        for o in self.owners:
            self.funcs[o]["end"] = self.off

    def ws(self, text):
        self._put(text, "w")

    def comment(self, text):
        """text: str, or {"marked": ..., "neutral": ...} (C17: the same program with / without suppression markers)"""
        if isinstance(text, dict):
            text = text[self.variant]
        self._put(text, "m")

    def nl(self, tc=None):
        if tc:
            self.ws(" ")
            self.comment(tc)
        self.ws("\n")

    def begin(self, name, is_async_at=None):
        fid = len(self.funcs)
        self.funcs.append({"id": fid, "name": name, "start": None, "end": None, "async_start": is_async_at,
                           "parent": self.owners[-1] if self.owners else None})
        self.owners.append(fid)
        return fid

    def finish(self):
        self.owners.pop()


def render(ast, variant="marked") -> Rendered:
    w = Writer(ast.get("indent", "    "))
    w.variant = variant
    lang = ast["lang"]
    if lang == "Python":
        _py_items(w, ast["items"])
    else:
        _br_items(w, ast["items"], lang)
    text = "".join(p[1] for p in w.parts)
    return Rendered(text, w.funcs, w.parts, set(ast.get("labels", [])))


def _trivia(w, node, lang):
    k = node["k"]
    if k == "blank":
        if node.get("spaces"):
            w.ws(w.unit)
        w.ws("\n")
        return True
    if k == "cmt":
        style = node["style"]
        lines = node["lines"]
        if style == "raw":  # complete comment text(s), possibly {"marked", "neutral"} pairs
            for ln in lines:
                w.indent()
                w.comment(ln)
                w.ws("\n")
        elif style == "line":
            lead = "#" if lang == "Python" else "//"
            for ln in lines:
                w.indent()
                w.comment(f"{lead} {ln}")
                w.ws("\n")
        elif style == "line0":  # comment in column 1 regardless of nesting
            lead = "#" if lang == "Python" else "//"
            for ln in lines:
                w.comment(f"{lead} {ln}")
                w.ws("\n")
        else:
            w.indent()
            if len(lines) == 1:
                w.comment(f"/* {lines[0]} */")
            else:
                pad = w.unit * w.level
                w.comment("/* " + ("\n" + pad + " * ").join(lines) + "\n" + pad + " */")
            w.ws("\n")
        return True
    return False


# --------------------------------------------------------------------------- brace languages


def _br_items(w, items, lang):
    for node in items:
        _br_node(w, node, lang)


def _open_brace(w, brace_next, tc=None):
    if brace_next:
        w.nl()
        w.indent()
        w.code("{")
    else:
        w.ws(" ")
        w.code("{")
    w.nl(tc)


def _br_node(w, node, lang):
    if _trivia(w, node, lang):
        return
    k = node["k"]
    if k == "s":
        w.indent()
        w.code(node["t"])
        w.nl(node.get("tc"))
    elif k == "m":
        lines = node["lines"]
        w.indent()
        w.code(lines[0])
        w.nl()
        for ln in lines[1:-1]:
            w.indent(1)
            w.code(ln)
            w.nl()
        w.indent(1 if node.get("close_deep") else 0)
        w.code(lines[-1])
        w.nl(node.get("tc"))
    elif k == "c":
        w.indent()
        w.code(node["head"])
        _open_brace(w, node.get("brace_next"))
        w.level += 1
        _br_items(w, node["body"], lang)
        w.level -= 1
        w.indent()
        w.code("}")
        if node.get("orelse") is not None:
            if node.get("brace_next"):
                w.nl()
                w.indent()
                w.code(node.get("else_head", "else"))
            else:
                w.ws(" ")
                w.code(node.get("else_head", "else"))
            _open_brace(w, node.get("brace_next"))
            w.level += 1
            _br_items(w, node["orelse"], lang)
            w.level -= 1
            w.indent()
            w.code("}")
        if node.get("tail"):
            w.ws(" ")
            w.code(node["tail"])
        w.nl(node.get("tc"))
    elif k == "blk":
        w.indent()
        if node["head"]:
            w.code(node["head"])
            _open_brace(w, node.get("brace_next"))
        else:
            w.code("{")
            w.nl()
        w.level += 1
        _br_items(w, node["body"], lang)
        w.level -= 1
        w.indent()
        w.code("}" + node.get("tail", ""))
        w.nl(node.get("tc"))
    elif k == "cont":
        w.indent()
        w.code(node["head"])
        _open_brace(w, node.get("brace_next"))
        w.level += 1
        _br_items(w, node["items"], lang)
        w.level -= 1
        w.indent()
        w.code("}" + node.get("tail", ""))
        w.nl(node.get("tc"))
    elif k == "func":
        _br_func(w, node, lang)
    else:
        raise ValueError(k)


def _br_func(w, f, lang):
    for ln in f.get("prefix_lines", []):  # annotations / template line / return type on its own line
        w.indent()
        w.code(ln)
        w.nl()
    if f.get("above_c"):
        w.indent()
        w.comment(f["above_c"])
        w.nl()
    w.indent()
    if f.get("pre_c"):
        w.comment(f["pre_c"])
        w.ws(" ")
    prefix = f.get("prefix", "")  # modifiers + return type on the header's line: owned by the enclosing scope
    if prefix:
        w.code(prefix)
        w.ws(" ")
    async_at = None
    if f.get("is_async") and f["shape"] in ("function",):
        async_at = w.off
        w.code("async")
        w.ws(" ")
    qual_at = None
    if f.get("qual"):
        qual_at = w.off
        w.code(f["qual"])  # 'Widget::' - span starts at the name, or at the qualifier when the lexer emits one token
    fid = w.begin(f["name"], async_at)
    if qual_at is not None:
        w.funcs[fid]["qual"] = (qual_at, f["qual"])
    head = f["head"]  # e.g. "function name", "name", "const name = async", "Cls::name"
    params = f["params"]
    name_tc = f.get("name_tc")
    if f.get("kw_break") and head.startswith("function "):
        # the keyword on a line of its own, the name on the next one (kw_tc: a trailing comment on the keyword's line)
        w.code("function")
        w.nl(f.get("kw_tc"))
        w.indent()
        head = head[len("function "):]
    if f.get("hdr_lines") == "aligned" and len(params) > 1:
        # continuation lines aligned with the opening parenthesis
        w.code(head + "(")
        pad = " " * w.column()
        w.code(params[0] + ",")
        w.nl(name_tc)
        name_tc = None
        for i, p in enumerate(params[1:], 1):
            w.ws(pad)
            w.code(p + ("," if i < len(params) - 1 else ")" + f.get("suffix", "")))
            if i < len(params) - 1:
                w.nl()
    elif f.get("hdr_lines") and params:
        w.code(head + "(")
        w.nl(name_tc)
        name_tc = None
        for i, p in enumerate(params):
            w.indent(2)
            w.code(p + ("," if i < len(params) - 1 else ""))
            w.nl()
        w.indent()
        w.code(")" + f.get("suffix", ""))
    elif f.get("suffix_break") and f.get("suffix", "").strip() and not f["suffix"].strip().startswith("=>"):
        # the throws clause / return type on lines of its own between ')' and the body
        w.code(head + "(" + ", ".join(params) + ")")
        w.nl(name_tc)
        name_tc = None
        pieces = [x.strip() for x in f["suffix"].strip().split(", ")]
        for i, piece in enumerate(pieces):
            w.indent(2)
            w.code(piece + ("," if i < len(pieces) - 1 else ""))
            if i < len(pieces) - 1:
                w.nl()
    else:
        w.code(head + "(" + ", ".join(params) + ")" + f.get("suffix", ""))
    if name_tc is not None:
        if f.get("brace_next"):
            w.ws(" ")
            w.comment(name_tc)
            _open_brace(w, True, f.get("tc_open"))
        else:
            w.ws(" ")
            w.code("{")
            w.nl(name_tc)
    else:
        _open_brace(w, f.get("brace_next"), f.get("tc_open"))
    w.level += 1
    _br_items(w, f["body"], lang)
    w.level -= 1
    w.indent()
    w.code("}")
    w.finish()
    if f.get("after"):
        w.code(f["after"])  # e.g. ';' after an arrow function assignment (belongs to the enclosing scope)
    w.nl(f.get("tc_close"))


# --------------------------------------------------------------------------- Python


def _py_items(w, items):
    for node in items:
        _py_node(w, node)


def _py_suite(w, body):
    w.level += 1
    _py_items(w, body)
    w.level -= 1


def _py_node(w, node):
    if _trivia(w, node, "Python"):
        return
    k = node["k"]
    if k == "s":
        w.indent()
        w.code(node["t"])
        w.nl(node.get("tc"))
    elif k == "m":
        lines = node["lines"]
        w.indent()
        w.code(lines[0])
        w.nl()
        for ln in lines[1:-1]:
            w.indent(1)
            w.code(ln)
            w.nl()
        w.indent(1 if node.get("close_deep") else 0)
        w.code(lines[-1])
        w.nl(node.get("tc"))
    elif k == "c":
        w.indent()
        w.code(node["head"])
        w.nl(node.get("tc"))
        _py_suite(w, node["body"])
        if node.get("orelse") is not None:
            w.indent()
            w.code(node.get("else_head", "else:"))
            w.nl()
            _py_suite(w, node["orelse"])
    elif k == "cont":
        w.indent()
        w.code(node["head"])
        w.nl(node.get("tc"))
        _py_suite(w, node["items"])
    elif k == "func":
        for ln in node.get("prefix_lines", []):
            w.indent()
            w.code(ln)
            w.nl()
        if node.get("above_c"):
            w.indent()
            w.comment(node["above_c"])
            w.nl()
        w.indent()
        async_at = None
        if node.get("is_async"):
            async_at = w.off
            w.code("async")
            w.ws(" ")
        w.begin(node["name"], async_at)
        params = node["params"]
        head = "def " + node["name"]
        if node.get("hdr_lines") == "aligned" and len(params) > 1:
            w.code(head + "(")
            pad = " " * w.column()
            w.code(params[0] + ",")
            w.nl(node.get("name_tc"))
            for i, p in enumerate(params[1:], 1):
                w.ws(pad)
                w.code(p + ("," if i < len(params) - 1 else ")" + node.get("suffix", "") + ":"))
                if i < len(params) - 1:
                    w.nl()
            w.nl(node.get("tc_open"))
        elif node.get("hdr_lines") and params:
            w.code(head + "(")
            w.nl(node.get("name_tc"))
            for p in params:
                w.indent(2)
                w.code(p + ",")
                w.nl()
            w.indent()
            w.code(")" + node.get("suffix", "") + ":")
            w.nl(node.get("tc_open"))
        else:
            w.code(head + "(" + ", ".join(params) + ")" + node.get("suffix", "") + ":")
            w.nl(node.get("name_tc") or node.get("tc_open"))
        _py_suite(w, node["body"])
        w.finish()
    else:
        raise ValueError(k)


# =========================================================================== ground truth


def _linecol(text, off):
    line = text.count("\n", 0, off) + 1
    start = text.rfind("\n", 0, off) + 1
    return line, off - start + 1


def expected(rd: Rendered, lang: str, reading: str = "B"):
    """reading 'A': an `async` keyword directly before def/function starts the span; 'B': the span starts at def/function
    and `async` belongs to the enclosing function (or to nobody)."""
    text = rd.text
    funcs = rd.funcs
    reported = [f for f in funcs if NESTS[lang] or f["parent"] is None]
    rep_ids = {f["id"] for f in reported}
    lines = {f["id"]: set() for f in reported}
    async_owner = {f["async_start"]: f["id"] for f in funcs if f["async_start"] is not None}
    for off, t, kind, owners in rd.parts:
        if kind != "c":
            continue
        own = [o for o in owners if o in rep_ids]
        target = own[-1] if own else None
        if reading == "A" and off in async_owner and async_owner[off] in rep_ids:
            target = async_owner[off]
        if target is not None:
            lines[target].add(text.count("\n", 0, off) + 1)
    out = []
    for f in sorted(reported, key=lambda f: f["start"]):
        start = f["start"]
        if reading == "A" and f["async_start"] is not None:
            start = f["async_start"]
        sl, sc = _linecol(text, start)
        el, ec = _linecol(text, f["end"] - 1)
        alts = [(f["name"], sl, sc)]
        if f.get("qual"):
            ql, qc = _linecol(text, f["qual"][0])
            alts.append((f["qual"][1] + f["name"], ql, qc))
        out.append((f["name"], sl, sc, el, ec + 1, len(lines[f["id"]]), tuple(alts)))
    if reading == "A":
        out.sort(key=lambda t: (t[1], t[2]))
    return out


def compare(got, want):
    """got: [(name, sl, sc, el, ec, length)] from the tool; want: expected(...). -> None | (kind, description)"""
    if len(got) != len(want):
        gn, wn = [g[0] for g in got], [w[0] for w in want]
        missing = [n for n in wn if n not in gn and not any(a[0] in gn for w in want if w[0] == n for a in w[6])]
        extra = [n for n in gn if not any(n == a[0] for w in want for a in w[6])]
        kind = "missing" if missing and not extra else "extra" if extra and not missing else "missing+extra" if missing else "count"
        return (kind, f"reported {gn}, expected {wn} (missing {missing}, not a function: {extra})")
    for g, w in zip(got, want):
        if (g[0], g[1], g[2]) not in w[6]:
            if g[0] not in [a[0] for a in w[6]]:
                return ("name", f"reported {g}, expected {w[:6]}")
            return ("start", f"{g[0]}: span starts at {g[1]}:{g[2]}, expected {[a[1:] for a in w[6]]}")
        if (g[3], g[4]) != (w[3], w[4]):
            return ("end", f"{g[0]}: span ends at {g[3]}:{g[4]}, expected {w[3]}:{w[4]}")
        if g[5] != w[5]:
            return ("length", f"{g[0]}: length {g[5]}, expected {w[5]}")
    return None


def one_token_line_after_nested(rd: Rendered) -> bool:
    """Some nested function is directly followed by a code piece that is a single token alone on its line."""
    import re

    code = [(off, t) for off, t, kind, _ in rd.parts if kind == "c"]
    line_of = lambda off: rd.text.count("\n", 0, off)
    per_line = {}
    for off, t in code:
        per_line.setdefault(line_of(off), []).append(t)
    for f in rd.funcs:
        if f["parent"] is None:
            continue
        nxt = next(((off, t) for off, t in code if off >= f["end"]), None)
        if nxt and re.fullmatch(r"\w+|[{}()\[\];]|\.\.\.", nxt[1]) and len(per_line[line_of(nxt[0])]) == 1:
            return True
    return False


def has_async(rd: Rendered) -> bool:
    return any(f["async_start"] is not None for f in rd.funcs)


# =========================================================================== generation


class Gen:
    def __init__(self, rnd, lang, size, known=()):
        self.r = rnd
        self.lang = lang
        self.size = size  # rough budget of statements
        self.labels = set()
        self.n = 0
        self.known = set(known)  # constructs withheld because of an open known finding
        self.excluded = 0
        self.max_depth = 3 if size < 60 else 5

    # -- small helpers
    def chance(self, p):
        return self.r.random() < p

    def pick(self, seq):
        return seq[self.r.randrange(len(seq))]

    def name(self):
        self.n += 1
        base = self.pick(NAMES)
        if self.chance(0.85):
            return f"{base}{self.n}"
        self.labels.add("duplicate_names_possible")
        return base

    def var(self):
        return self.pick(VARS)

    # -- trivia
    def trivia(self, inside):
        r = self.r.random()
        if r < 0.35:
            self.labels.add("blank_line")
            return {"k": "blank", "spaces": self.chance(0.2)}
        if r < 0.7 or self.lang == "Python":
            self.labels.add("line_comment")
            style = "line0" if (inside and self.chance(0.15)) else "line"
            if style == "line0":
                self.labels.add("comment_col1_in_body")
            return {"k": "cmt", "style": style, "lines": [self.pick(COMMENT_TEXTS)]}
        if r < 0.85:
            self.labels.add("block_comment")
            return {"k": "cmt", "style": "block", "lines": [self.pick(COMMENT_TEXTS)]}
        self.labels.add("block_comment_multiline")
        return {"k": "cmt", "style": "mblock", "lines": [self.pick(COMMENT_TEXTS) for _ in range(self.r.randint(2, 4))]}

    def tc(self):
        if self.chance(0.12):
            self.labels.add("trailing_comment")
            lead = "#" if self.lang == "Python" else "//"
            if self.lang != "Python" and self.chance(0.3):
                return f"/* {self.pick(COMMENT_TEXTS)} */"
            return f"{lead} {self.pick(COMMENT_TEXTS)}"
        return None

    # -- statements
    def simple(self):
        L = self.lang
        v, u = self.var(), self.var()
        end = "" if L == "Python" else ";"
        opts = [f"{v} = {u} + {self.r.randint(1, 9)}{end}", f"{self.pick(NAMES)}({v}, {self.r.randint(0, 9)}){end}", f"{v} += 1{end}"]
        r = self.r.random()
        if r < 0.05:
            self.labels.add("one_token_statement")
            t = self.pick(["pass", v, "..."]) if L == "Python" else self.pick([";", "{}"]) if self.chance(0.3) else f"{v};"
            return {"k": "s", "t": t, "tc": None}
        if r < 0.12:
            self.labels.add("string_with_delims")
            s = self.pick(['"a(b){c}"', '"}"', '"{"', '"("', '")"', '"it\'s }"', '"// no"', '"/* x"', '"# x"'])
            t = f"{v} = {s}{end}"
        elif r < 0.18 and L in ("C", "C++", "C#", "Java"):
            self.labels.add("char_with_delims")
            t = f"{v} = {self.pick(CHAR_LITS)}{end}"
        elif r < 0.22 and L in ("JavaScript", "TypeScript"):
            self.labels.add("template_with_delims")
            t = f"{v} = {self.pick(['`a(b`', '`}`', '`{x`', '`)`'])}{end}"
        elif r < 0.3:
            t = {"C": f"int {v}{self.n} = {self.r.randint(0, 99)};", "C++": f"auto {v}{self.n} = {u};", "C#": f"var {v}{self.n} = {u};",
                 "Java": f"int {v}{self.n} = {u};", "JavaScript": f"const {v}{self.n} = {u};", "TypeScript": f"const {v}{self.n}: number = {u};",
                 "Python": f"{v}{self.n} = [{u}, {v}]"}[L]
        elif r < 0.36:
            t = {"Python": f"{v} = {self.pick(NAMES)}({u})[0]"}.get(L, f"{v} = {self.pick(NAMES)}({u}).{self.pick(VARS)};")
        elif r < 0.40 and L == "Python":
            self.labels.add("lambda")
            t = f"{v} = lambda {u}: {self.pick(NAMES)}({u})"
        elif r < 0.40 and L in ("JavaScript", "TypeScript"):
            self.labels.add("one_line_arrow")
            t = f"const {v}{self.n} = ({u}) => {u} + 1;"
        elif r < 0.47 and r >= 0.43 and L == "Python":
            self.labels.add("fstring_or_comprehension")
            t = self.pick([f'{v} = f"{{{self.pick(NAMES)}({u})}} {{{u}!r:>{{w}}}}"', f"{v} = [{u} for {u} in {v}s if {self.pick(NAMES)}({u})]", f"{v} = {u} if {v} else None",
                           f'{v} = f"({{{u}}}) {{{{literal}}}}"', f"{v} = {{{u}: {v} for {u} in {v}s}}"])
        elif r < 0.43 and L == "Python":
            self.labels.add("docstring_like")
            t = '"""' + self.pick([c for c in COMMENT_TEXTS if '"' not in c]) + '"""'
        else:
            t = self.pick(opts)
        return {"k": "s", "t": t, "tc": self.tc()}

    def multi(self):
        L = self.lang
        self.labels.add("multiline_statement")
        n = self.r.randint(1, 3)
        args = [f"{self.var()}{',' if i < n - 1 or L == 'Python' else ''}" for i in range(n)]
        head = f"{self.var()} = {self.pick(NAMES)}("
        tail = ")" if L == "Python" else ");"
        deep = self.chance(0.3)
        return {"k": "m", "lines": [head] + args + [tail], "close_deep": deep}

    def ctrl(self, depth, budget):
        L = self.lang
        v = self.var()
        if L == "Python":
            kind = self.pick(["if", "for", "while", "try", "with"])
            head = {"if": f"if {v} > 1:", "for": f"for {v} in {self.var()}s:", "while": f"while {v}:", "try": "try:", "with": f"with {self.pick(NAMES)}({v}) as {self.var()}:"}[kind]
            node = {"k": "c", "head": head, "body": self.body(depth, max(1, budget // 2), allow_func=self.chance(0.25))}
            if kind == "if" and self.chance(0.4):
                node["orelse"] = self.body(depth, 2, allow_func=False)
                node["else_head"] = self.pick(["else:", f"elif {v} < 0:"])
            elif kind == "try":
                node["orelse"] = self.body(depth, 2, allow_func=False)
                node["else_head"] = self.pick(["except ValueError:", "finally:", "except (KeyError, IndexError) as err:"])
            self.labels.add(f"ctrl")
            return node
        kinds = ["if", "for", "while", "switch"] + ([] if L == "C" else ["try"]) + ["do"]
        if L == "C#":
            kinds += ["foreach", "using", "lock", "await foreach", "await using"]  # two-word forms start their line with 'await'
        if L == "Java":
            kinds += ["synchronized", "foreach"]
        kind = self.pick(kinds)
        decl = {"C": "int", "C++": "int", "C#": "int", "Java": "int", "JavaScript": "let", "TypeScript": "let"}[L]
        head = {"if": f"if ({v} > 1)", "for": f"for ({decl} {v}{self.n} = 0; {v}{self.n} < 3; {v}{self.n}++)", "while": f"while ({v})",
                "switch": f"switch ({v})", "try": "try", "do": "do",
                "foreach": f"foreach (var {v}{self.n} in {v}s)" if L == "C#" else f"for (int {v}{self.n} : {v}s)", "using": f"using (var {v}{self.n} = Open({v}))", "lock": "lock (this)",
                "await foreach": f"await foreach (var {v}{self.n} in {v}s)", "await using": f"await using (var {v}{self.n} = Open({v}))",
                "synchronized": "synchronized (this)"}[kind]
        if " " in kind or kind in ("foreach", "using", "lock", "synchronized"):
            self.labels.add("ctrl_other_keyword")
        node = {"k": "c", "head": head, "brace_next": self.chance(0.25)}
        if node["brace_next"]:
            self.labels.add("ctrl_brace_next_line")
        if kind == "switch":
            node["body"] = [{"k": "s", "t": "case 1:"}, self.simple(), {"k": "s", "t": "break;"}, {"k": "s", "t": "default:"}, self.simple()]
        else:
            node["body"] = self.body(depth, max(1, budget // 2), allow_func=self.chance(0.25))
        if kind == "if" and self.chance(0.4):
            node["orelse"] = self.body(depth, 2, allow_func=False)
            node["else_head"] = self.pick(["else", f"else if ({v} < 0)"])
            if L == "C#" and node["brace_next"] and node["else_head"] != "else":
                # 'else if (' at the start of a line: Pygments' C# lexer types 'if' as a method name (known finding)
                if "csharp_else_if_line_start" in self.known:
                    self.excluded += 1
                    node["else_head"] = "else"
                else:
                    self.labels.add("csharp_else_if_line_start")
        elif kind == "try":
            exc = {"C++": "const std::exception& e", "C#": "Exception e", "Java": "Exception e", "JavaScript": "e", "TypeScript": "e"}[L]
            node["orelse"] = self.body(depth, 2, allow_func=False)
            node["else_head"] = f"catch ({exc})"
        elif kind == "do":
            node["tail"] = f"while ({v});"
        self.labels.add("ctrl")
        return node

    def block_thing(self, depth):
        """Initialisers, anonymous functions / lambdas / callbacks, macro blocks: brace blocks that are NOT functions."""
        L = self.lang
        v = self.var()
        choices = ["init", "bare_block"]
        if L in ("JavaScript", "TypeScript"):
            choices += ["callback_arrow", "anon_function", "callback_arrow"]
        if L == "Java":
            choices += ["lambda"]
        if L == "C#":
            choices += ["lambda"]
        if L == "C++":
            choices += ["lambda"]
        if L == "C":
            choices += ["macro_block", "macro_block"]
        kind = self.pick(choices)
        self.labels.add(kind)
        if kind == "init":
            head = {"C": f"int {v}{self.n}[] =", "C++": f"int {v}{self.n}[] =", "C#": f"int[] {v}{self.n} =", "Java": f"int[] {v}{self.n} =",
                    "JavaScript": f"const {v}{self.n} =", "TypeScript": f"const {v}{self.n} ="}[L]
            if L in ("JavaScript", "TypeScript"):
                items = [{"k": "s", "t": f"{self.pick(VARS)}{i}: {i},"} for i in range(self.r.randint(1, 3))]
            else:
                items = [{"k": "s", "t": f"{i},"} for i in range(self.r.randint(1, 3))]
            return {"k": "blk", "head": head, "body": items, "tail": ";"}
        body = self.body(depth, self.r.randint(1, 3), allow_func=False)
        if kind == "bare_block":
            return {"k": "blk", "head": "", "body": body, "tail": ""}
        if kind == "callback_arrow":
            p = f"({v}: number)" if L == "TypeScript" and self.chance(0.5) else f"({v})"
            return {"k": "blk", "head": f"{self.var()}s.forEach({p} =>", "body": body, "tail": ");"}
        if kind == "anon_function":
            return {"k": "blk", "head": f"setTimeout(function ()", "body": body, "tail": ", 10);"}
        if kind == "lambda":
            head = {"Java": f"run(() ->", "C#": f"Run(() =>", "C++": f"auto {v}{self.n} = [&](int {self.var()})"}[L]
            return {"k": "blk", "head": head, "body": body, "tail": ";" if L == "C++" else ");"}
        if kind == "macro_block":
            return {"k": "blk", "head": f"for_each({v}, {self.var()}s)", "body": body, "tail": ""}
        raise ValueError(kind)

    def body(self, depth, budget, allow_func=True, must_nest=None):
        """A statement list of roughly `budget` statements. must_nest: 'first'|'middle'|'last' forces a nested function there."""
        out = []
        L = self.lang
        can_nest = NESTS[L] and allow_func and depth < self.max_depth
        n = max(1, budget)
        i = 0
        stmts = []
        while i < n:
            r = self.r.random()
            if r < 0.62:
                stmts.append(self.simple())
                i += 1
            elif r < 0.70:
                stmts.append(self.multi())
                i += 2
            elif r < 0.82 and depth < self.max_depth + 1:
                stmts.append(self.ctrl(depth + 1, min(6, n - i)))
                i += 3
            elif r < 0.88 and L != "Python" and depth < self.max_depth + 1:
                stmts.append(self.block_thing(depth + 1))
                i += 3
            elif r < 0.97 and can_nest and must_nest is None:
                stmts.append(self.nested(depth + 1))
                i += 4
            else:
                stmts.append(self.simple())
                i += 1
        if must_nest and can_nest:
            nf = self.nested(depth + 1)
            if must_nest == "first":
                stmts.insert(0, nf)
            elif must_nest == "last":
                stmts.append(nf)
            else:
                stmts.insert(max(1, len(stmts) // 2), nf)
                if len(stmts) == 2:
                    stmts.append(self.simple())
        # position labels for nested functions
        for idx, s in enumerate(stmts):
            if s["k"] == "func" or (s["k"] == "cont" and any(x["k"] == "func" for x in s["items"])):
                if idx == 0:
                    self.labels.add("nested_first")
                if idx == len(stmts) - 1:
                    self.labels.add("nested_last")
                if 0 < idx < len(stmts) - 1:
                    self.labels.add("nested_middle")
        # sprinkle trivia
        for s in stmts:
            if self.chance(0.12):
                out.append(self.trivia(inside=True))
            out.append(s)
        if self.chance(0.08):
            out.append(self.trivia(inside=True))
        return out

    def nested(self, depth):
        L = self.lang
        self.labels.add("nested")
        if depth >= 3:
            self.labels.add("depth>=3")
        if L in ("Java",) or (L in ("C++",)) or (L == "Python" and self.chance(0.25)) or (L == "C#" and self.chance(0.3)):
            # methods of a local / anonymous class
            methods = [self.func(depth, method=True) for _ in range(self.r.randint(1, 2))]
            items = []
            for m in methods:
                if self.chance(0.3):
                    items.append(self.field())
                items.append(m)
            if L == "Java" and self.chance(0.5):
                self.labels.add("anonymous_class")
                return {"k": "cont", "head": f"Runnable {self.var()}{self.n} = new Runnable()", "items": items, "tail": ";"}
            self.labels.add("local_class")
            if L == "Python":
                return {"k": "cont", "head": f"class Local{self.n}:", "items": items}
            head = {"Java": f"class Local{self.n}", "C++": f"struct Local{self.n}", "C#": f"class Local{self.n}"}[L]
            return {"k": "cont", "head": head, "items": items, "tail": ";" if L == "C++" else ""}
        return self.func(depth, method=False)

    def field(self):
        L = self.lang
        v = self.var()
        t = {"C": f"int {v}{self.n};", "C++": f"int {v}{self.n} = 0;", "C#": f"private int {v}{self.n} = 0;", "Java": f"private int {v}{self.n} = 0;",
             "JavaScript": f"{v}{self.n} = 0;", "TypeScript": f"private {v}{self.n}: number = 0;", "Python": f"{v}{self.n} = 0"}[L]
        self.n += 1
        return {"k": "s", "t": t}

    # -- parameters
    def params(self):
        L = self.lang
        n = self.r.choice([0, 1, 1, 2, 2, 3])
        ps = []
        for i in range(n):
            v = f"{self.pick(VARS)}{i}"
            r = self.r.random()
            typed = {"C": f"int {v}", "C++": f"int {v}", "C#": f"int {v}", "Java": f"int {v}", "JavaScript": v, "TypeScript": f"{v}: number", "Python": v}[L]
            if r < 0.10 and L in ("JavaScript", "TypeScript", "Python", "C++", "Java"):
                self.labels.add("param_brace_group")
                typed = {"JavaScript": f"{v} = {{x: 1}}", "TypeScript": f"{v}: {{x: number}}", "Python": f"{v}={{1: 2}}", "C++": f"std::vector<int> {v} = {{1, 2}}",
                         "Java": f"@Ann({{1, 2}}) int {v}"}[L]
                if L == "Java" and "param_call_group" in self.known:
                    typed = f"int {v}"
            elif r < 0.18 and L in ("C", "C++", "Java", "C#", "Python", "JavaScript") and "param_call_group" not in self.known:
                self.labels.add("param_call_group")
                typed = {"C": f"int {v} ATTR(unused)", "C++": f"int {v} = {self.pick(NAMES)}(1)", "Java": f"@Ann(1) int {v}", "C#": f"[Attr(1)] int {v}",
                         "Python": f"{v}={self.pick(NAMES)}(1)", "JavaScript": f"{v} = {self.pick(NAMES)}(1)"}[L]
            elif r < 0.26 and L in ("Python", "JavaScript", "TypeScript", "C++", "C#"):
                self.labels.add("string_delims_in_params")
                lit = self.pick(['"("', '")"', '"{"', '"}"'])
                typed = {"Python": f"{v}={lit}", "JavaScript": f"{v} = {lit}", "TypeScript": f"{v}: string = {lit}", "C++": f"const char* {v} = {lit}",
                         "C#": f"string {v} = {lit}"}[L]
            elif r < 0.32 and L in ("C", "C++"):
                self.labels.add("function_pointer_param")
                typed = f"int (*{v})(int)"
            elif r < 0.38 and L == "Python":
                self.labels.add("annotated_param")
                typed = f"{v}: int = {self.r.randint(0, 9)}"
            elif r < 0.50 and r >= 0.42 and L in ("Java", "C", "C++", "C#", "TypeScript"):
                self.labels.add("rich_param_types")
                typed = self.pick({"Java": [f"String... {v}", f"final Map<String, List<Integer>> {v}", f"int[] {v}", f"final int {v}"],
                                   "C": [f"const char *{v}", f"int {v}[]", f"struct node *{v}", f"unsigned long {v}"],
                                   "C++": [f"const std::string& {v}", f"int {v}[]", f"std::map<int, int>& {v}", f"Foo* {v}"],
                                   "C#": [f"params int[] {v}", f"ref int {v}", f"Dictionary<string, int> {v}", f"int? {v}"],
                                   "TypeScript": [f"{v}?: number", f"{v}: number[]", f"{v}: Map<string, number>", f"...{v}: number[]"]}[L])
            elif r < 0.42 and L in ("Python", "JavaScript", "TypeScript"):
                self.labels.add("nested_parens_in_params")
                typed = {"Python": f"{v}=(1, (2, 3))", "JavaScript": f"{v} = (1 + (2 * 3))", "TypeScript": f"{v}: number = (1 + (2 * 3))"}[L]
            ps.append(typed)
        if L == "Python" and self.chance(0.2):
            ps.append(self.pick(["*args", "**kwargs"]))
        return ps

    # -- functions
    def func(self, depth, method=False, toplevel_container=None):
        L = self.lang
        name = self.name()
        f = {"k": "func", "name": name, "params": self.params(), "brace_next": False}
        if L == "Python":
            if method:
                f["params"] = ["self"] + f["params"]
            if self.chance(0.15):
                f["is_async"] = True
                self.labels.add("async")
            if self.chance(0.2):
                f["prefix_lines"] = [self.pick(["@staticmethod", "@deco", "@wraps(fn)", "@app.route(\"/x\")"])]
                self.labels.add("decorator")
            if self.chance(0.25):
                f["suffix"] = self.pick([" -> int", " -> None", " -> Dict[str, int]", " -> Optional[List[int]]"])
                self.labels.add("return_annotation")
            f["shape"] = "def"
        elif L in ("JavaScript", "TypeScript"):
            shapes = ["method"] if method else ["function", "function", "arrow"]
            shape = self.pick(shapes)
            f["shape"] = shape
            if shape in ("function", "arrow") and depth == 0 and not method and self.chance(0.2):
                f["prefix"] = "export" if shape == "arrow" or self.chance(0.7) else "export default"
                self.labels.add("export_prefix")
            if shape == "function":
                f["head"] = f"function {name}"
                if self.chance(0.15):
                    f["is_async"] = True
                    self.labels.add("async")
                if L == "TypeScript" and self.chance(0.5):
                    f["suffix"] = ": " + self.pick(["number", "string", "void", "Promise<void>", "Foo"])
                    self.labels.add("ts_return_type")
            elif shape == "arrow":
                self.labels.add("arrow_function")
                kw = "const " if self.chance(0.6) else ""
                isa = self.chance(0.2)
                if isa:
                    self.labels.add("async_arrow")
                f["head"] = f"{kw}{name} = {'async ' if isa else ''}"
                f["suffix"] = " =>"
                f["after"] = ";" if self.chance(0.7) else ""
            else:
                mods = self.pick(["", "", "static", "async"]) if L == "JavaScript" else self.pick(["", "public", "private", "static", "private async", "public static"])
                if mods:
                    f["prefix"] = mods
                    self.labels.add("method_modifiers")
                f["head"] = name
                if L == "TypeScript" and self.chance(0.5):
                    f["suffix"] = ": " + self.pick(["number", "string", "void", "Promise<void>"])
                    self.labels.add("ts_return_type")
        else:
            ret = self.pick({"C": ["int", "void", "char *", "struct node *"], "C++": ["int", "void", "std::string", "Foo*"], "C#": ["int", "void", "string", "Task<int>"],
                             "Java": ["int", "void", "String", "List<String>", "Map<String, Integer>"]}[L])
            mods = {"C": ["", "", "static", "static inline"], "C++": ["", "", "static", "inline", "virtual"], "C#": ["public", "private", "public static", "internal", "private async"],
                    "Java": ["public", "private", "public static", "protected final", ""]}[L]
            mod = self.pick(mods) if (method or L in ("C", "C++")) else ({"C#": "", "Java": ""}.get(L, ""))
            if L in ("C#", "Java") and not method:
                mod = ""
            f["head"] = name
            f["shape"] = "method" if method else "plain"
            prefix = (mod + " " + ret).strip()
            if L == "Java" and method and self.chance(0.12):
                prefix = (mod + " <T> List<T>").strip()
                self.labels.add("generic_method")
            if L == "Java" and method and self.chance(0.12):
                prefix = mod  # constructor-like: no return type
                self.labels.add("constructor_like")
            if L == "C++" and not method and self.chance(0.2):
                f["qual"] = "Widget::"
                self.labels.add("qualified_name")
            if L in ("C", "C++") and self.chance(0.15) and prefix:
                f["prefix_lines"] = [prefix]
                prefix = ""
                self.labels.add("return_type_on_previous_line")
            if L == "C++" and self.chance(0.08):
                f["prefix_lines"] = ["template <typename T>"] + f.get("prefix_lines", [])
                self.labels.add("template_line")
            if L == "Java" and self.chance(0.2):
                f["prefix_lines"] = [self.pick(["@Override", "@Deprecated", '@SuppressWarnings("unchecked")', "@Test(timeout = 100)"])] + f.get("prefix_lines", [])
                self.labels.add("annotation_line")
            if L == "C#" and self.chance(0.15):
                f["prefix_lines"] = [self.pick(["[Obsolete]", "[Test]", '[Route("x")]'])] + f.get("prefix_lines", [])
                self.labels.add("attribute_line")
            if L == "Java" and self.chance(0.2):
                f["suffix"] = " throws " + self.pick(["IOException", "IOException, SQLException", "java.io.IOException",
                                                      "java.io.IOException, java.sql.SQLException, java.util.concurrent.TimeoutException",
                                                      "E1, E2, E3, E4, E5, E6, E7, E8, E9", "IOException, SQLException"])
                if f["suffix"].count(",") >= 2:
                    self.labels.add("long_throws_clause")
                self.labels.add("throws")
            f["prefix"] = prefix
        if L != "Python":
            f["brace_next"] = self.chance(0.5 if L == "C#" else 0.25)
            if f["brace_next"]:
                self.labels.add("brace_next_line")
        if f["params"] and self.chance(0.25):
            f["hdr_lines"] = True
            self.labels.add("multiline_header")
            if len(f["params"]) > 1 and self.chance(0.4) and not any("*" in p[:2] for p in f["params"][:1]):
                f["hdr_lines"] = "aligned"
                self.labels.add("multiline_header_aligned")
        if L in ("JavaScript", "TypeScript") and f.get("shape") == "function" and not f.get("is_async") and not f.get("prefix") and str(f.get("head", "")).startswith("function ") and self.chance(0.1):
            f["kw_break"] = True
            self.labels.add("keyword_and_name_on_separate_lines")
        if L in ("Java", "TypeScript") and f.get("suffix", "").strip() and not f.get("hdr_lines") and not f["suffix"].strip().startswith("=>") and self.chance(0.3):
            f["suffix_break"] = True
            self.labels.add("throws_or_return_type_on_own_lines")
        f["tc_open"] = self.tc()
        if L != "Python":
            f["tc_close"] = self.tc()
        # body length: extra weight around the thresholds
        r = self.r.random()
        if depth == 0 and r < 0.25:
            target = self.pick([13, 14, 15, 16, 17, 28, 29, 30, 31, 32, 58, 59, 60, 61, 62, 75, 90])
            self.labels.add("len_near_threshold")
        else:
            target = self.r.randint(1, max(2, min(12, self.size // 3)))
        target = min(target, max(3, self.size))
        must = None
        if NESTS[L] and depth < self.max_depth and self.chance(0.3):
            must = self.pick(["first", "middle", "last"])
        body = self.body(depth, target, allow_func=True, must_nest=must)
        if L == "Python" and not any(n["k"] not in ("blank", "cmt") for n in body):
            body.append(self.simple())
        f["body"] = body
        return f

    def container(self, depth=0):
        L = self.lang
        nm = f"Widget{self.n}"
        self.n += 1
        self.labels.add("container")
        if L == "Python":
            head = self.pick([f"class {nm}:", f"class {nm}(Base):"])
        elif L == "C":
            return None
        elif L == "C++":
            head = self.pick([f"class {nm}", f"struct {nm}", f"namespace ns{self.n}", f"class {nm} : public Base"])
        elif L == "C#":
            head = self.pick([f"public class {nm}", f"namespace Ns{self.n}", f"internal static class {nm}", f"public interface I{nm}"])
        elif L == "Java":
            head = self.pick([f"public class {nm}", f"class {nm} extends Base", f"interface I{nm}", f"final class {nm} implements Runnable", f"enum Kind{self.n}"])
        else:
            head = self.pick([f"class {nm}", f"class {nm} extends Base", f"export class {nm}"])
        is_iface = "interface" in head
        is_ns = "namespace" in head
        items = []
        for _ in range(self.r.randint(1, 4)):
            r = self.r.random()
            if is_iface:
                items.append({"k": "s", "t": f"void {self.name()}(int a);"})
                if L == "Java" and self.chance(0.4):
                    self.labels.add("interface_default_method")
                    dm = self.func(0, method=True)
                    dm["prefix"] = "default void"
                    dm.pop("suffix", None)
                    items.append(dm)
            elif is_ns and r < 0.4 and depth < 2:
                c = self.container(depth + 1)
                if c:
                    items.append(c)
            elif r < 0.2:
                items.append(self.field())
                if L == "C#" and self.chance(0.5):
                    self.labels.add("csharp_property")
                    items.append({"k": "s", "t": self.pick([f"public int Prop{self.n} {{ get {{ return x; }} set {{ x = value; }} }}", f"public int Auto{self.n} {{ get; set; }}"])})
            elif r < 0.26 and L in ("Java", "C#", "JavaScript", "TypeScript") and items and items[-1]["k"] == "func":
                self.labels.add("initialiser_block_after_method")
                ihead = "static" if L != "Java" or self.chance(0.5) else ""
                items.append({"k": "blk", "head": ihead, "body": [self.simple() for _ in range(self.r.randint(1, 3))], "tail": ""})
            elif r < 0.3:
                items.append(self.trivia(inside=False))
            else:
                items.append(self.func(0, method=not is_ns or L == "C#"))
        if L == "C++" and not is_ns and self.chance(0.5):
            items.insert(0, {"k": "s", "t": self.pick(["public:", "private:"])})
        if head.startswith("enum "):
            self.labels.add("java_enum")
            items.insert(0, {"k": "s", "t": "FIRST, SECOND(2), THIRD;"})
        if L == "Python" and not any(n["k"] not in ("blank", "cmt") for n in items):
            items.append(self.field())
        node = {"k": "cont", "head": head, "items": items, "brace_next": L != "Python" and self.chance(0.5 if L == "C#" else 0.2)}
        if L == "C++" and not is_ns:
            node["tail"] = ";"
        return node

    def global_stmt(self):
        L = self.lang
        self.labels.add("global_code")
        v = self.var()
        if L == "C":
            return self.pick([{"k": "s", "t": "#include <stdio.h>"}, {"k": "s", "t": f"static int {v}{self.n} = 3;"}, {"k": "s", "t": f"int {self.pick(NAMES)}_proto(int a);"},
                              {"k": "blk", "head": "typedef struct", "body": [{"k": "s", "t": "int a;"}], "tail": " item_t;"}, {"k": "s", "t": "#define SQ(a) ((a) * (a))"}])
        if L == "C++":
            return self.pick([{"k": "s", "t": "#include <vector>"}, {"k": "s", "t": "using namespace std;"}, {"k": "s", "t": f"static int {v}{self.n} = 3;"},
                              {"k": "s", "t": f"int {self.pick(NAMES)}_proto(int a);"}])
        if L == "C#":
            return self.pick([{"k": "s", "t": "using System;"}, {"k": "s", "t": "using System.Collections.Generic;"}])
        if L == "Java":
            return self.pick([{"k": "s", "t": "package com.example;"}, {"k": "s", "t": "import java.util.List;"}])
        if L in ("JavaScript", "TypeScript"):
            return self.pick([{"k": "s", "t": f'const {v}{self.n} = require("mod");'}, {"k": "s", "t": f"{self.pick(NAMES)}({v});"}, {"k": "s", "t": f"let {v}{self.n} = 3;"},
                              {"k": "blk", "head": f"const cfg{self.n} =", "body": [{"k": "s", "t": "a: 1,"}], "tail": ";"}, self.ctrl(1, 2)])
        return self.pick([{"k": "s", "t": "import os"}, {"k": "s", "t": f"{v}{self.n} = 3"}, {"k": "s", "t": f"{self.pick(NAMES)}({v})"},
                          {"k": "c", "head": 'if __name__ == "__main__":', "body": [{"k": "s", "t": "main()"}]}, self.multi()])

    def program(self):
        L = self.lang
        items = []
        budget = self.size
        nitems = self.r.randint(2, 3 + self.size // 12)
        for _ in range(nitems):
            r = self.r.random()
            if r < 0.15:
                items.append(self.global_stmt())
            elif r < 0.25:
                items.append(self.trivia(inside=False))
            elif (r < 0.5 and L != "C") or L in ("Java", "C#"):
                c = self.container()
                if c:
                    items.append(c)
            else:
                items.append(self.func(0, method=False))
        if not any(n["k"] in ("func", "cont") for n in items):
            items.append(self.func(0, method=False) if L not in ("Java", "C#") else self.container())
        unit = self.pick(["  ", "    ", "    ", "\t"]) if L != "Python" else self.pick(["    ", "    ", "  "])
        return {"k": "prog", "lang": L, "indent": unit, "items": items, "labels": sorted(self.labels)}


CHAR_LITS = ["'{'", "'}'", "'('", "')'", "'\"'"]
COMMENT_TEXTS = ["note", "see above", "todo: tidy", "x(y) { z }", "if (a) {", "} else {", "def f(a):", "function g() {", "not a marker", "keep", "a = b;", "(", ")", "{", "}",
                 "\"quoted\"", "it's", "int f(int a) {"]


def gen_program(rnd, lang, size=30, known=()):
    g = Gen(rnd, lang, size, known)
    ast = g.program()
    ast["labels"] = sorted(g.labels)
    ast["excluded_known"] = g.excluded
    return ast


# =========================================================================== shrinking (AST level)


def _lists(node):
    for key in ("items", "body", "orelse"):
        if isinstance(node.get(key), list):
            yield key, node[key]


def shrink_ast(ast):
    """Yield smaller ASTs: drop one node anywhere, replace a node by its children, simplify a function header."""
    import copy

    def walk(node, path):
        for key, lst in _lists(node):
            for i, child in enumerate(lst):
                yield path + [(key, i)], child
                yield from walk(child, path + [(key, i)])

    def edit(path, fn):
        new = copy.deepcopy(ast)
        node = new
        for key, i in path[:-1]:
            node = node[key][i]
        key, i = path[-1]
        fn(node[key], i)
        return new

    paths = list(walk(ast, []))
    for path, child in paths:
        yield edit(path, lambda lst, i: lst.pop(i))
    for path, child in paths:
        inner = [c for _, l in _lists(child) for c in l]
        if inner and child["k"] != "func":
            yield edit(path, lambda lst, i, inner=inner: lst.__setitem__(slice(i, i + 1), copy.deepcopy(inner)))
    for path, child in paths:
        if child["k"] == "func":
            for key, val in (("params", []), ("hdr_lines", False), ("brace_next", False), ("prefix_lines", []), ("tc_open", None), ("tc_close", None), ("is_async", False)):
                if child.get(key):
                    def setit(lst, i, key=key, val=val):
                        lst[i][key] = val
                    yield edit(path, setit)
        if child.get("tc"):
            yield edit(path, lambda lst, i: lst[i].__setitem__("tc", None))
