"""Pattern syntax trees over atoms a, b, c: enumeration by size, Hypothesis strategy, conversion to codelimit
expressions, JSON form (nested lists)."""
from __future__ import annotations

from functools import lru_cache
from itertools import product

from hypothesis import strategies as st

ATOMS = ("a", "b", "c")
UNARY = ("opt", "star", "plus")
BINARY = ("cat", "alt")


@lru_cache(maxsize=None)
def trees_of_size(n: int) -> tuple:
    if n == 1:
        return tuple(("sym", a) for a in ATOMS)
    out = []
    for op in UNARY:
        for t in trees_of_size(n - 1):
            out.append((op, t))
    for op in BINARY:
        for k in range(1, n - 1):
            for l in trees_of_size(k):
                for r in trees_of_size(n - 1 - k):
                    out.append((op, l, r))
    return tuple(out)


def sequences(alphabet, max_len):
    for n in range(max_len + 1):
        for s in product(alphabet, repeat=n):
            yield s


def to_expr(tree):
    """Tree -> codelimit Expression (a list whose items are atoms or Operators; concatenation is flattened,
    because expression_to_nfa treats a list nested in a list as an atom)."""
    from codelimit.common.gsm.operator.OneOrMore import OneOrMore
    from codelimit.common.gsm.operator.Optional import Optional
    from codelimit.common.gsm.operator.Union import Union
    from codelimit.common.gsm.operator.ZeroOrMore import ZeroOrMore

    t = tree[0]
    if t == "sym":
        return [tree[1]]
    if t == "cat":
        return to_expr(tree[1]) + to_expr(tree[2])
    if t == "alt":
        return [Union(to_expr(tree[1]), to_expr(tree[2]))]
    if t == "opt":
        return [Optional(to_expr(tree[1]))]
    if t == "star":
        return [ZeroOrMore(to_expr(tree[1]))]
    if t == "plus":
        return [OneOrMore(to_expr(tree[1]))]
    raise ValueError(tree)


def nullable_repetition_family(max_body=4):
    """(star|plus) over every nullable body with <= max_body nodes, alone and followed by an atom: repetitions of bodies
    that can match nothing, in one or several ways (epsilon cycles in the construction)."""
    from vf.ref import regex as R

    out = []
    for n in range(1, max_body + 1):
        for body in trees_of_size(n):
            if not R.nullable(R.norm(body)):
                continue
            for op in ("star", "plus"):
                rep = (op, body)
                out.append(rep)
                for a in ATOMS[:2]:
                    out.append(("cat", rep, ("sym", a)))
                    out.append(("cat", ("sym", a), rep))
    return out


def to_json(tree):
    return [tree[0]] + [to_json(c) if isinstance(c, tuple) else c for c in tree[1:]]


def from_json(j):
    return tuple([j[0]] + [from_json(c) if isinstance(c, list) else c for c in j[1:]])


def show(tree) -> str:
    t = tree[0]
    if t == "sym":
        return tree[1]
    if t == "cat":
        return f"({show(tree[1])} {show(tree[2])})"
    if t == "alt":
        return f"({show(tree[1])}|{show(tree[2])})"
    return f"{show(tree[1])}{ {'opt': '?', 'star': '*', 'plus': '+'}[t] }"


def operators(tree) -> set:
    s = set()
    if tree[0] != "sym":
        s.add(tree[0])
        for c in tree[1:]:
            s |= operators(c)
    return s


def nests_in_repetition(tree, inside=False) -> bool:
    """A repetition or optional nested inside a repetition."""
    t = tree[0]
    if t == "sym":
        return False
    if t in UNARY and inside:
        return True
    return any(nests_in_repetition(c, inside or t in ("star", "plus")) for c in tree[1:])


def nontrivial(tree) -> bool:
    return nests_in_repetition(tree) or len(operators(tree)) >= 3


def tree_strategy(max_leaves=7):
    leaf = st.sampled_from([("sym", a) for a in ATOMS])

    def extend(children):
        return st.one_of(
            st.tuples(st.sampled_from(UNARY), children),
            st.tuples(st.sampled_from(BINARY), children, children),
        )

    return st.recursive(leaf, extend, max_leaves=max_leaves)


def subtrees(tree):
    """Strictly smaller trees for shrinking: children, and the tree with one child replaced by its child."""
    for c in tree[1:]:
        if isinstance(c, tuple):
            yield c
    for i, c in enumerate(tree[1:], 1):
        if isinstance(c, tuple):
            for sub in subtrees(c):
                yield tree[:i] + (sub,) + tree[i + 1 :]
