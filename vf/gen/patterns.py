"""Pattern syntax trees over atoms a, b, c: enumeration by size, Hypothesis strategy, conversion to codelimit
expressions, JSON form (nested lists)."""
from __future__ import annotations

from functools import lru_cache
from itertools import product

from hypothesis import strategies as st

ATOMS = ("a", "b", "c")
UNARY = ("opt", "star", "plus")
BINARY = ("cat", "alt")


@lru_cache(maxsize=None)
def trees_of_size(n: int) -> tuple:
    if n == 1:
        return tuple(("sym", a) for a in ATOMS)
    out = []
    for op in UNARY:
        for t in trees_of_size(n - 1):
            out.append((op, t))
    for op in BINARY:
        for k in range(1, n - 1):
            for l in trees_of_size(k):
                for r in trees_of_size(n - 1 - k):
                    out.append((op, l, r))
    return tuple(out)


def sequences(alphabet, max_len):
    for n in range(max_len + 1):
        for s in product(alphabet, repeat=n):
            yield s


MODES = [("plain", False, False), ("fresh", False, True), ("one", False, False), ("fresh", True, False), ("plain", True, True), ("one", True, True), ("plain", False, True)]
_SYM = []


def _sym_class():
    """A user-defined predicate over one letter, equal (and hashing alike) to every other instance for that letter - the
    way the language modules' own predicates (Name(), Symbol("(")) are built afresh at every use."""
    if not _SYM:
        from codelimit.common.gsm.predicate.Predicate import Predicate

        class Sym(Predicate):
            def __init__(self, ch):
                self.ch = ch

            def accept(self, item):
                return item == self.ch

            def __eq__(self, other):
                return isinstance(other, Sym) and other.ch == self.ch

            def __hash__(self):
                return hash(("Sym", self.ch))

            def __str__(self):
                return self.ch

        _SYM.append(Sym)
    return _SYM[0]


def to_expr(tree, atoms="plain", share=False, bare=False, _memo=None, _one=None):
    """Tree -> codelimit Expression (a list whose items are atoms or Operators; concatenation is flattened,
    because expression_to_nfa treats a list nested in a list as an atom).
    atoms: 'plain' items | 'fresh' (an equal but distinct predicate object at every occurrence) | 'one' (one predicate
    object per letter, reused). share: identical sub-patterns are one and the same operator object, used at several
    places of the pattern. bare: an operand that is a single item or operator is handed to the enclosing operator as such,
    not wrapped in a one-element list (the operators accept both; Union then sees every mix of list and bare operands)."""
    from codelimit.common.gsm.operator.OneOrMore import OneOrMore
    from codelimit.common.gsm.operator.Optional import Optional
    from codelimit.common.gsm.operator.Union import Union
    from codelimit.common.gsm.operator.ZeroOrMore import ZeroOrMore

    if _memo is None:
        _memo, _one = {}, {}
    t = tree[0]
    if t == "sym":
        if atoms == "plain":
            return [tree[1]]
        if atoms == "fresh":
            return [_sym_class()(tree[1])]
        if tree[1] not in _one:
            _one[tree[1]] = _sym_class()(tree[1])
        return [_one[tree[1]]]
    if t == "cat":
        return to_expr(tree[1], atoms, share, bare, _memo, _one) + to_expr(tree[2], atoms, share, bare, _memo, _one)
    if share and tree in _memo:
        return [_memo[tree]]
    def sub(x):
        e = to_expr(x, atoms, share, bare, _memo, _one)
        return e[0] if bare and len(e) == 1 else e

    if t == "alt":
        op = Union(sub(tree[1]), sub(tree[2]))
    elif t == "opt":
        op = Optional(sub(tree[1]))
    elif t == "star":
        op = ZeroOrMore(sub(tree[1]))
    elif t == "plus":
        op = OneOrMore(sub(tree[1]))
    else:
        raise ValueError(tree)
    _memo[tree] = op
    return [op]


def has_repeated_subpattern(tree) -> bool:
    """Some operator sub-pattern occurs at two places (so that share=True really shares an object)."""
    seen, dup = set(), False

    def walk(x):
        nonlocal dup
        if x[0] == "sym":
            return
        if x[0] != "cat":
            if x in seen:
                dup = True
            seen.add(x)
        for c in x[1:]:
            walk(c)

    walk(tree)
    return dup


def nullable_repetition_family(max_body=4):
    """(star|plus) over every nullable body with <= max_body nodes, alone and followed by an atom: repetitions of bodies
    that can match nothing, in one or several ways (epsilon cycles in the construction)."""
    from vf.ref import regex as R

    out = []
    for n in range(1, max_body + 1):
        for body in trees_of_size(n):
            if not R.nullable(R.norm(body)):
                continue
            for op in ("star", "plus"):
                rep = (op, body)
                out.append(rep)
                for a in ATOMS[:2]:
                    out.append(("cat", rep, ("sym", a)))
                    out.append(("cat", ("sym", a), rep))
    return out


def shared_family():
    """Patterns in which one operator sub-pattern X occurs at two or three places (X b X, X X, (X a | X), (X c X)+,
    X (b | X)) for every X of 2..3 nodes: with share=True the occurrences are one and the same operator object."""
    out = []
    xs = [t for n in (2, 3) for t in trees_of_size(n)]
    a, b, c = (("sym", ch) for ch in ATOMS)
    for x in xs:
        out.append(("cat", x, ("cat", b, x)))
        out.append(("cat", x, x))
        out.append(("alt", ("cat", x, a), x))
        out.append(("plus", ("cat", x, ("cat", c, x))))
        out.append(("cat", x, ("alt", b, x)))
        out.append(("cat", a, ("cat", x, ("cat", b, ("cat", x, ("cat", c, x))))))
    return out


def to_json(tree):
    return [tree[0]] + [to_json(c) if isinstance(c, tuple) else c for c in tree[1:]]


def from_json(j):
    return tuple([j[0]] + [from_json(c) if isinstance(c, list) else c for c in j[1:]])


def show(tree) -> str:
    t = tree[0]
    if t == "sym":
        return tree[1]
    if t == "cat":
        return f"({show(tree[1])} {show(tree[2])})"
    if t == "alt":
        return f"({show(tree[1])}|{show(tree[2])})"
    return f"{show(tree[1])}{ {'opt': '?', 'star': '*', 'plus': '+'}[t] }"


def operators(tree) -> set:
    s = set()
    if tree[0] != "sym":
        s.add(tree[0])
        for c in tree[1:]:
            s |= operators(c)
    return s


def nests_in_repetition(tree, inside=False) -> bool:
    """A repetition or optional nested inside a repetition."""
    t = tree[0]
    if t == "sym":
        return False
    if t in UNARY and inside:
        return True
    return any(nests_in_repetition(c, inside or t in ("star", "plus")) for c in tree[1:])


def nontrivial(tree) -> bool:
    return nests_in_repetition(tree) or len(operators(tree)) >= 3


def tree_strategy(max_leaves=7):
    leaf = st.sampled_from([("sym", a) for a in ATOMS])

    def extend(children):
        return st.one_of(
            st.tuples(st.sampled_from(UNARY), children),
            st.tuples(st.sampled_from(BINARY), children, children),
        )

    return st.recursive(leaf, extend, max_leaves=max_leaves)


def subtrees(tree):
    """Strictly smaller trees for shrinking: children, and the tree with one child replaced by its child."""
    for c in tree[1:]:
        if isinstance(c, tuple):
            yield c
    for i, c in enumerate(tree[1:], 1):
        if isinstance(c, tuple):
            for sub in subtrees(c):
                yield tree[:i] + (sub,) + tree[i + 1 :]
