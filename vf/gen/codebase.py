"""Generators for codebases at the data level (C07, C08, C18): relative path sets, measurement lists, reports.

A generated codebase is plain data:
    {"root": str, "files": [{"path": "a/b/x.py", "language": "Python", "checksum": "..", "lengths": [...],
                             "names": [...], "spans": [[sl, sc, el, ec], ...]}, ...]}   (in insertion order)
"""
from __future__ import annotations

from hypothesis import strategies as st

LANG_EXT = {
    "Python": "py",
    "C": "c",
    "C++": "cpp",
    "C#": "cs",
    "Java": "java",
    "JavaScript": "js",
    "TypeScript": "ts",
}
# ordinary names, shared prefixes, and names whose first character sorts before '.' / after letters
SEGMENTS = ["src", "lib", "a", "ab", "abc", "a.b", "core", "util", "pkg", "x1", "app", "b",
            "-legacy", "(group)", "#tmp", "+x", " sp", "!a", "$v", ",c", "_p", "~t", "Z", "0d", "a-b", "a b"]
STEMS = ["main", "a", "util", "index", "mod", "x", "ab", "core"]
BOUNDARY = [1, 2, 14, 15, 16, 17, 29, 30, 31, 32, 59, 60, 61, 62, 100]

lengths = st.one_of(st.sampled_from(BOUNDARY), st.integers(1, 120), st.integers(1, 10**6))

_unsafe_seg = st.text(min_size=1, max_size=8).filter(lambda s: "/" not in s and "\x00" not in s and s not in (".", ".."))


def _no_surrogates(s: str) -> bool:
    return not any(0xD800 <= ord(c) <= 0xDFFF for c in s)


wild_text = st.one_of(
    st.text(max_size=12),
    st.text(alphabet='"\\\n\t\r\b\f\x01\x1f/ {}[]:,\'', min_size=1, max_size=6),
    st.text(alphabet="äéπ日本語😀\u2028\u00a0", min_size=1, max_size=5),
    st.sampled_from(['"', "\\", '\\"', "a\"b", "c:\\dir\\x", "\n", "\u2028", "😀", "", " ", "null", "true", "0", "{", "}"]),
).filter(_no_surrogates)

wild_segment = wild_text.filter(lambda s: s != "" and "/" not in s and "\x00" not in s and s not in (".", ".."))


@st.composite
def codebases(draw, wild=False, max_files=25, languages=None, clash=False):
    langs = languages or list(LANG_EXT)
    nfiles = draw(st.integers(0, max_files))
    seg = st.one_of(st.sampled_from(SEGMENTS), wild_segment) if wild else st.sampled_from(SEGMENTS)
    stem = st.one_of(st.sampled_from(STEMS), wild_segment) if wild else st.sampled_from(STEMS)
    name = st.one_of(st.sampled_from(["f", "g", "main", "foo", "bar"]), wild_text) if wild else st.sampled_from(["f", "g", "main", "foo", "bar", "h"])
    files, dirs = {}, set()
    for _ in range(nfiles):
        depth = draw(st.sampled_from([0, 0, 1, 1, 2, 2, 3, 4, 5, 6]))
        parts = [draw(seg) for _ in range(depth)]
        lang = draw(st.sampled_from(langs))
        base = f"{draw(stem)}.{LANG_EXT.get(lang, 'txt')}"
        # no path may be both a file and a folder; no duplicate files
        ok = True
        for k in range(1, len(parts) + 1):
            if "/".join(parts[:k]) in files:
                ok = False
        path = "/".join(parts + [base])
        if clash and draw(st.integers(0, 3)) == 0 and dirs:
            # a FILE named like an existing folder (in the same parent): the data model keeps files and folders apart
            path = draw(st.sampled_from(sorted(dirs)))
            ok = path not in files
        elif not ok or path in dirs:
            if not clash:
                continue
        if not ok or path in files:
            continue
        for k in range(1, len(parts) + 1):
            dirs.add("/".join(parts[:k]))
        nm = draw(st.integers(0, 6))
        ls = [draw(lengths) for _ in range(nm)]
        names = [draw(name) for _ in range(nm)]
        spans = []
        line = 1
        for v in ls:
            sc, ec = draw(st.integers(1, 40)), draw(st.integers(1, 80))
            spans.append([line, sc, line + v - 1, ec])
            line += v + draw(st.integers(0, 3))
        if nm and draw(st.integers(0, 5)) == 0:
            # a measurement listed twice, identical in every field (adjacent or not): the data model is a list, not a set
            j = draw(st.integers(0, nm - 1))
            at = draw(st.sampled_from([j + 1, nm]))
            ls.insert(at, ls[j]); names.insert(at, names[j]); spans.insert(at, list(spans[j]))
        checksum = draw(st.text(alphabet="0123456789abcdef", min_size=32, max_size=32)) if not wild else draw(
            st.one_of(st.text(alphabet="0123456789abcdef", min_size=32, max_size=32), wild_text))
        files[path] = {"path": path, "language": lang, "checksum": checksum, "lengths": ls, "names": names, "spans": spans}
    order = draw(st.permutations(list(files)))
    root = draw(st.one_of(st.sampled_from(["/", "/tmp/p", "/home/u/proj"]), wild_text)) if wild else draw(st.sampled_from(["/", "/tmp/p", "/home/u/proj"]))
    return {"root": root, "files": [files[p] for p in order]}


def build(cb):
    """Data -> codelimit Codebase, the way Scanner / ReportReader build it (add_file per file, then one aggregate())."""
    from codelimit.common.Codebase import Codebase
    from codelimit.common.Location import Location
    from codelimit.common.Measurement import Measurement
    from codelimit.common.SourceFileEntry import SourceFileEntry

    codebase = Codebase(cb["root"])
    for f in cb["files"]:
        ms = [
            Measurement(n, Location(s[0], s[1]), Location(s[2], s[3]), v)
            for n, s, v in zip(f["names"], f["spans"], f["lengths"])
        ]
        codebase.add_file(SourceFileEntry(f["path"], f["checksum"], f["language"], sum(f["lengths"]), ms))
    codebase.aggregate()
    return codebase


def shrink_codebase(cb):
    """Smaller codebases: drop a file, drop a measurement, shorten a path."""
    fs = cb["files"]
    for i in range(len(fs)):
        yield dict(cb, files=fs[:i] + fs[i + 1 :])
    for i, f in enumerate(fs):
        for j in range(len(f["lengths"])):
            g = dict(f, lengths=f["lengths"][:j] + f["lengths"][j + 1 :], names=f["names"][:j] + f["names"][j + 1 :], spans=f["spans"][:j] + f["spans"][j + 1 :])
            yield dict(cb, files=fs[:i] + [g] + fs[i + 1 :])
    for i, f in enumerate(fs):
        parts = f["path"].split("/")
        if len(parts) > 1:
            for k in range(len(parts) - 1):
                np = "/".join(parts[:k] + parts[k + 1 :])
                others = {g["path"] for g in fs if g is not f}
                otherdirs = {"/".join(g["path"].split("/")[:m]) for g in fs if g is not f for m in range(1, len(g["path"].split("/")))}
                if np not in others and np not in otherdirs and not any(np.startswith(o + "/") for o in others):
                    yield dict(cb, files=fs[:i] + [dict(f, path=np)] + fs[i + 1 :])
