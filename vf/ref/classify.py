"""The threshold table of property C02, written once and independently of codelimit.

A function of length L is easy if L <= 15, verbose if 16 <= L <= 30, hard-to-maintain if 31 <= L <= 60 and
unmaintainable if L > 60.
"""

EASY, VERBOSE, HARD, UNMAINTAINABLE = 0, 1, 2, 3


def category(length: int) -> int:
    if length <= 15:
        return EASY
    if length <= 30:
        return VERBOSE
    if length <= 60:
        return HARD
    return UNMAINTAINABLE


def is_finding(length: int) -> bool:
    return length > 30


def is_unmaintainable(length: int) -> bool:
    return length > 60


# colour shown next to a function, per category (names of rich colours used by the tool's documentation/screens)
CATEGORY_COLOR = {EASY: "green", VERBOSE: "yellow", HARD: "dark_orange", UNMAINTAINABLE: "red"}
# symbol shown by check / findings (text): check mark up to 30, warning sign 31..60, heavy cross above 60
CHECK_SYMBOL = {EASY: "✓", VERBOSE: "✓", HARD: "⚠", UNMAINTAINABLE: "✖"}
