"""Reference semantics for the pattern engine: regular expressions over an abstract alphabet with Brzozowski
derivatives. Independent of codelimit. Trees are tuples:

    ("sym", x) | ("cat", r, s) | ("alt", r, s) | ("opt", r) | ("star", r) | ("plus", r)

Internal normal forms add EMPTY = ("0",) (no word) and EPS = ("1",) (the empty word). Smart constructors propagate
EMPTY completely, so `r == EMPTY` decides language emptiness (there is no intersection or complement).
"""
from __future__ import annotations

from functools import lru_cache

EMPTY = ("0",)
EPS = ("1",)


def cat(r, s):
    if r == EMPTY or s == EMPTY:
        return EMPTY
    if r == EPS:
        return s
    if s == EPS:
        return r
    return ("cat", r, s)


def alt(r, s):
    if r == EMPTY:
        return s
    if s == EMPTY:
        return r
    if r == s:
        return r
    return ("alt", r, s)


def star(r):
    if r == EMPTY or r == EPS:
        return EPS
    if r[0] == "star":
        return r
    return ("star", r)


@lru_cache(maxsize=None)
def norm(r):
    """Tree -> normal form (opt and plus are expanded)."""
    t = r[0]
    if t in ("0", "1", "sym"):
        return r
    if t == "cat":
        return cat(norm(r[1]), norm(r[2]))
    if t == "alt":
        return alt(norm(r[1]), norm(r[2]))
    if t == "opt":
        return alt(EPS, norm(r[1]))
    if t == "star":
        return star(norm(r[1]))
    if t == "plus":
        n = norm(r[1])
        return cat(n, star(n))
    raise ValueError(r)


@lru_cache(maxsize=None)
def nullable(r) -> bool:
    t = r[0]
    if t == "0" or t == "sym":
        return False
    if t == "1" or t == "star":
        return True
    if t == "cat":
        return nullable(r[1]) and nullable(r[2])
    if t == "alt":
        return nullable(r[1]) or nullable(r[2])
    raise ValueError(r)


@lru_cache(maxsize=None)
def deriv(r, ch):
    """Derivative of a NORMAL FORM with respect to one letter."""
    t = r[0]
    if t == "0" or t == "1":
        return EMPTY
    if t == "sym":
        return EPS if r[1] == ch else EMPTY
    if t == "alt":
        return alt(deriv(r[1], ch), deriv(r[2], ch))
    if t == "star":
        return cat(deriv(r[1], ch), r)
    if t == "cat":
        left = cat(deriv(r[1], ch), r[2])
        if nullable(r[1]):
            return alt(left, deriv(r[2], ch))
        return left
    raise ValueError(r)


def matches(tree, seq) -> bool:
    r = norm(tree)
    for ch in seq:
        r = deriv(r, ch)
        if r == EMPTY:
            return False
    return nullable(r)


def shortest_prefix(tree, seq):
    """Least k >= 1 with seq[:k] in L(tree), else None."""
    r = norm(tree)
    for k, ch in enumerate(seq, 1):
        r = deriv(r, ch)
        if r == EMPTY:
            return None
        if nullable(r):
            return k
    return None


def greedy_end(tree, seq, i):
    """The engine's documented greedy run from position i: advance while a transition exists (derivative not
    empty); success iff it stops (stuck or end of input) on a nullable derivative after >= 1 item.
    Returns the end index or None."""
    r = norm(tree)
    j = i
    while j < len(seq):
        d = deriv(r, seq[j])
        if d == EMPTY:
            break
        r = d
        j += 1
    if j > i and nullable(r):
        return j
    return None


def to_python_re(tree) -> str:
    t = tree[0]
    if t == "sym":
        return tree[1]
    if t == "cat":
        return f"(?:{to_python_re(tree[1])}{to_python_re(tree[2])})"
    if t == "alt":
        return f"(?:{to_python_re(tree[1])}|{to_python_re(tree[2])})"
    if t == "opt":
        return f"(?:{to_python_re(tree[1])})?"
    if t == "star":
        return f"(?:{to_python_re(tree[1])})*"
    if t == "plus":
        return f"(?:{to_python_re(tree[1])})+"
    raise ValueError(tree)


def size(tree) -> int:
    return 1 + sum(size(c) for c in tree[1:] if isinstance(c, tuple))
