"""Reference matcher for the five unambiguous gitignore pattern classes (C11, C12) - independent of pathspec.

    name      bare name without a slash       matches a file or directory of that name at any depth
    dir/      directory name, trailing slash  matches directories of that name at any depth (not a file of that name)
    *.ext     glob on a single name           matches a file or directory whose name ends in .ext, at any depth
    a/b       path with an inner slash        anchored at the root: matches exactly that file or directory
    a/*       anchored directory + star       matches every entry directly inside root-level a (hence all beneath it)

A path is excluded when it, or any directory above it, matches. Negation, '**', character classes, escapes,
leading '/', and comments are never generated.
"""
from __future__ import annotations


def classify(pattern: str) -> str:
    if pattern.startswith("*.") and "/" not in pattern:
        return "ext"
    if pattern.endswith("/*") and pattern.count("/") >= 1 and "*" not in pattern[:-1]:
        return "dirstar"
    if pattern.endswith("/") and "/" not in pattern[:-1]:
        return "dir"
    if "/" in pattern and not pattern.endswith("/") and "*" not in pattern:
        return "anchored"
    if "/" not in pattern and "*" not in pattern:
        return "name"
    raise ValueError(f"pattern outside the modelled classes: {pattern!r}")


def excluded(rel_path: str, patterns) -> bool:
    """rel_path: root-relative path of a FILE, '/'-separated."""
    parts = rel_path.split("/")
    dirs = parts[:-1]
    for p in patterns:
        k = classify(p)
        if k == "name":
            if p in parts:
                return True
        elif k == "dir":
            if p[:-1] in dirs:
                return True
        elif k == "ext":
            suffix = p[1:]
            if any(c.endswith(suffix) and len(c) >= len(suffix) for c in parts):
                return True
        elif k == "anchored":
            if rel_path == p or rel_path.startswith(p + "/"):
                return True
        elif k == "dirstar":
            base = p[:-2]
            if rel_path.startswith(base + "/"):
                return True
    return False


_TRANSCRIBED_DEFAULT_EXCLUDES = [
    ".bzr", ".direnv", ".eggs", ".git", ".git-rewrite", ".hg", ".ipynb_checkpoints", ".mypy_cache", ".nox", ".pants.d", ".pytest_cache",
    ".pytype", ".ruff_cache", ".svn", ".tox", ".venv", ".vscode", "__pypackages__", "_build", "buck-out", "build", "dist", "node_modules",
    "venv", "test", "tests",
]  # the built-in exclusions as documented in the tool's README / Scanner (all bare names)



def _builtin_excludes():
    """The property speaks of 'the built-in exclusions' without listing them, so the list is read from the tool's source
    text (the literal assigned to DEFAULT_EXCLUDES in Scanner.py - read statically, so that a run-time mutation of the list
    cannot leak into the reference); the transcription above is the fallback when no such literal is found."""
    import ast
    import os

    try:
        from vf.common import REPO

        src = open(os.path.join(str(REPO), "codelimit", "common", "Scanner.py"), encoding="utf-8").read()
        for node in ast.walk(ast.parse(src)):
            if isinstance(node, (ast.Assign, ast.AnnAssign)):
                targets = node.targets if isinstance(node, ast.Assign) else [node.target]
                if any(isinstance(t, ast.Name) and t.id == "DEFAULT_EXCLUDES" for t in targets) and node.value is not None:
                    value = ast.literal_eval(node.value)
                    if isinstance(value, (list, tuple, set)) and value and all(isinstance(x, str) for x in value):
                        return list(value)
    except Exception:  # noqa: BLE001
        pass
    return list(_TRANSCRIBED_DEFAULT_EXCLUDES)


DEFAULT_EXCLUDES = _builtin_excludes()

LANGUAGE_OF_EXT = {"py": "Python", "c": "C", "cpp": "C++", "cc": "C++", "cs": "C#", "java": "Java", "js": "JavaScript", "mjs": "JavaScript", "ts": "TypeScript"}
UNSUPPORTED_EXT = ["txt", "md", "rb", "go", "json", "tsx", "jsx", ""]


def hidden(rel_path: str) -> bool:
    return any(c.startswith(".") for c in rel_path.split("/"))


# file names (not extensions) that Pygments' Python lexer claims: Bazel / SCons / Buck build files
LANGUAGE_OF_NAME = {"BUILD": "Python", "WORKSPACE": "Python", "SConstruct": "Python", "SConscript": "Python", "BUCK": "Python", "BUILD.bazel": "Python", "TARGETS": "Python"}


# Pygments picks, among the lexers whose file-name patterns match, the one with the highest priority and then the
# greatest class name: the Makefile ('Makefile.*') and Kconfig ('Kconfig*') lexers therefore take these names away from
# the C#, Java and JavaScript lexers (not from Python, C, C++ and TypeScript, whose lexers win the tie). Transcribed from
# Pygments 2.x and cross-checked against it by vf.props.c11.selftest_names.
CLAIMED_STEMS = ("Makefile.", "Kconfig")
CLAIMED_EXT = ("cs", "java", "js", "mjs")


def language_of(rel_path: str):
    name = rel_path.split("/")[-1]
    if name in LANGUAGE_OF_NAME:
        return LANGUAGE_OF_NAME[name]
    if name.startswith(CLAIMED_STEMS) and "." in name and name.rsplit(".", 1)[1] in CLAIMED_EXT:
        return None
    if "." not in name:
        return None
    return LANGUAGE_OF_EXT.get(name.rsplit(".", 1)[1])


def qualifies(rel_path: str, patterns) -> bool:
    return not hidden(rel_path) and language_of(rel_path) is not None and not excluded(rel_path, list(DEFAULT_EXCLUDES) + list(patterns))
