"""Runs one atheris campaign in a subprocess and hands its findings to a Collector (used by C03 / C05 thorough)."""
from __future__ import annotations

import json
import os
import re
import shutil
import subprocess
import sys
import tempfile
from pathlib import Path

from vf.common import HOME, REPO
from vf.gen import malformed as M
from vf.gen import programs as P


def available():
    deps = HOME / ".deps"
    if not (deps / "atheris").exists():
        r = subprocess.run([sys.executable, "-m", "pip", "install", "--quiet", "--no-index", "--find-links", "/opt/veriftools/wheels", "--target", str(deps), "atheris"],
                           capture_output=True, text=True)
        if r.returncode != 0:
            return False
    return (deps / "atheris").exists()


def run(col, prop, seed, runs, seeded_corpus, max_len=600):
    """-> number of executions. Findings of `prop` are re-validated through the property's own run_case."""
    if not available():
        col.inconclusive.append("atheris is not installable from the offline wheelhouse: coverage-guided campaign skipped")
        return 0
    base = Path(tempfile.mkdtemp(prefix="vf-fuzz-"))
    out, corpus = base / "out", base / "corpus"
    out.mkdir()
    corpus.mkdir()
    try:
        if seeded_corpus:
            import random

            k = 0
            for li, lang in enumerate(P.LANGS):
                rnd = random.Random(seed + li)
                for size in (6, 10):
                    text = P.render(P.gen_program(rnd, lang, size)).text[:max_len]
                    (corpus / f"s{k}").write_bytes(bytes([li]) + text.encode())
                    k += 1
                for t in M.header_cuts(lang)[::9][:3] + M.bodiless_templates(lang)[:2]:
                    (corpus / f"s{k}").write_bytes(bytes([li]) + t.encode())
                    k += 1
        dict_file = base / "tokens.dict"
        toks = sorted({t for lang in P.LANGS for t in M.alphabet(lang) if t.strip() and len(t) > 1})
        dict_file.write_text("".join('"' + "".join(f"\\x{b:02x}" for b in t.encode()) + '"\n' for t in toks))
        env = dict(os.environ, PYTHONPATH=f"{REPO}:{HOME}", VERIF_DEPS=str(HOME / ".deps"))
        cmd = [sys.executable, str(HOME / "vf" / "fuzz" / "scan_fuzz.py"), str(out), str(corpus), f"-runs={runs}", f"-seed={seed % 2**31 or 1}", f"-max_len={max_len}",
               f"-dict={dict_file}", "-timeout=120", "-rss_limit_mb=4096", "-print_final_stats=1"]
        p = subprocess.run(cmd, capture_output=True, text=True, env=env, timeout=3600)
        m = re.search(r"stat::number_of_executed_units:\s*(\d+)", p.stderr)
        execs = int(m.group(1)) if m else 0
        cov = re.findall(r"cov: (\d+)", p.stderr)
        col.notes["atheris_executions"] = col.notes.get("atheris_executions", 0) + execs
        if cov:
            col.notes["atheris_final_cov_edges"] = max(col.notes.get("atheris_final_cov_edges", 0), int(cov[-1]))
        if p.returncode != 0 and "Done" not in p.stderr:
            col.inconclusive.append(f"atheris campaign ended with status {p.returncode}: {p.stderr[-300:]}")
        for f in sorted(out.glob(f"{prop}-*.json")):
            doc = json.loads(f.read_text())
            case = doc["case"]
            col.eval(case, nontrivial=True, labels=[f"atheris:{'seeded' if seeded_corpus else 'empty'}-corpus-finding"])
        col.evals += execs
        col.label(f"atheris:{'seeded' if seeded_corpus else 'empty'}-corpus")
        return execs
    finally:
        shutil.rmtree(base, ignore_errors=True)
