"""Coverage-guided campaign (atheris / libFuzzer) for C03 and C05.

    python scan_fuzz.py <out_dir> <corpus_dir> -runs=N -seed=S [-dict=..] ...

Input format: byte 0 selects the language (mod 7); the rest is the file content (decoded like the tool's reader does).
The semantic oracles live INSIDE the target: C03 = no exception escapes scan_file, C05 = every returned measurement is
well-formed. A failing input is written to <out_dir>/<property>-<bucket digest>.json (smallest per bucket) and the campaign
continues, so that one shallow finding does not hide what lies behind it.
"""
import json
import os
import sys

sys.path.insert(0, os.environ.get("VERIF_DEPS", "/verif/.deps"))
import atheris  # noqa: E402

with atheris.instrument_imports(include=["codelimit"]):
    import codelimit.common.Scanner  # noqa: F401
    import codelimit.languages  # noqa: F401

from vf.common import digest, exc_bucket  # noqa: E402
from vf.gen import malformed as M  # noqa: E402
from vf.gen import programs as P  # noqa: E402
from vf.props import c05  # noqa: E402
from vf.props.c01 import tool_scan_file  # noqa: E402

OUT = sys.argv[1]
SEEN = {}
COUNT = [0]


def record(prop, bucket, lang, data, message):
    key = f"{prop}-{digest(bucket)[:10]}"
    size = len(data)
    if key in SEEN and SEEN[key] <= size:
        return
    SEEN[key] = size
    with open(os.path.join(OUT, key + ".json"), "w") as f:
        json.dump({"property": prop, "bucket": bucket, "message": message[-2000:], "case": {"lang": lang, "bytes_hex": data.hex()}}, f)


def target(data):
    COUNT[0] += 1
    if len(data) < 1:
        return
    lang = P.LANGS[data[0] % len(P.LANGS)]
    body = bytes(data[1:])
    text = M.decode_like_tool(body)
    try:
        ms = tool_scan_file(lang, text)
    except Exception as e:  # noqa: BLE001 - the oracle of C03
        b, tb = exc_bucket(e)
        record("C03", f"scan_file:{b}", lang, body, tb)
        return
    bad = c05.check_measurements(lang, text, ms)
    if bad:
        record("C05", f"{lang}:{bad[0]}", lang, body, bad[1])


def main():
    argv = [sys.argv[0]] + sys.argv[2:]
    atheris.Setup(argv, target)
    atheris.Fuzz()


if __name__ == "__main__":
    main()
