"""Temporary codebases on disk: always under a private temp dir, always removed."""
from __future__ import annotations

import contextlib
import os
import shutil
import tempfile
from pathlib import Path


@contextlib.contextmanager
def temp_tree(files: dict | None = None, prefix="vf-"):
    """files: {relative path: str | bytes}. Yields the root Path (resolved)."""
    base = tempfile.mkdtemp(prefix=prefix)
    root = Path(base).resolve() / "root"
    root.mkdir()
    try:
        if files:
            write_files(root, files)
        yield root
    finally:
        shutil.rmtree(base, ignore_errors=True)


def write_files(root: Path, files: dict):
    for rel, content in files.items():
        p = root / rel
        p.parent.mkdir(parents=True, exist_ok=True)
        if isinstance(content, bytes):
            p.write_bytes(content)
        else:
            p.write_bytes(content.encode("utf-8"))


# ---- flat functions of an exact length (used where the nesting logic must not matter) -------------------------


def flat_function(lang: str, name: str, length: int) -> str:
    """A function whose measured length is exactly `length` lines (length >= 1; Python needs >= 2)."""
    if lang == "Python":
        assert length >= 2
        return f"def {name}(a, b):\n" + "".join(f"    x{i} = a + {i}\n" for i in range(length - 1))
    if lang in ("C", "C++"):
        if length == 1:
            return f"int {name}(int a) {{ return a; }}\n"
        return f"int {name}(int a) {{\n" + "".join(f"  a += {i};\n" for i in range(length - 2)) + "}\n"
    if lang in ("JavaScript", "TypeScript"):
        if length == 1:
            return f"function {name}(a) {{ return a; }}\n"
        return f"function {name}(a) {{\n" + "".join(f"  a += {i};\n" for i in range(length - 2)) + "}\n"
    if lang in ("Java", "C#"):
        if length == 1:
            return f"  void {name}(int a) {{ a++; }}\n"
        return f"  void {name}(int a) {{\n" + "".join(f"    a += {i};\n" for i in range(length - 2)) + "  }\n"
    raise ValueError(lang)


def flat_file(lang: str, lengths, names=None, marked=()) -> str:
    """marked: indices of functions that carry the suppression marker on their header line"""
    names = names or [f"fn{i}" for i in range(len(lengths))]
    parts = []
    for i, (n, v) in enumerate(zip(names, lengths)):
        text = flat_function(lang, n, v)
        if i in marked:
            first, rest = text.split("\n", 1)
            text = first + ("  # nocl" if lang == "Python" else " // nocl") + "\n" + rest
        parts.append(text)
    body = "\n".join(parts)
    if lang in ("Java", "C#"):
        return "class Holder {\n" + body + "}\n"
    return body


EXT = {"Python": "py", "C": "c", "C++": "cpp", "C#": "cs", "Java": "java", "JavaScript": "js", "TypeScript": "ts"}
