"""Observation of which files a scan really analyses, at the point the properties name (Scanner._analyze_file).

The probe must never turn a refactoring of that private function into an alarm: it accepts any signature, maps the
arguments back to root-relative paths by looking for a path among them, and declares itself unavailable (the callers
then skip the analysed-set part of their oracle and say so with a label) when the function is gone, when its arguments
cannot be mapped, or when it stays silent although files were analysed without a cache."""
from __future__ import annotations

import os
from pathlib import Path, PurePath


class AnalysisProbe:
    def __init__(self, root, known_rel_paths=()):
        self.root = os.path.realpath(str(root))
        self.known = set(known_rel_paths)
        self.seen: list[str] = []
        self.available = True
        self._orig = None

    def _map(self, args, kwargs):
        cands = [str(x) for x in list(args) + list(kwargs.values()) if isinstance(x, (str, PurePath))]
        for c in cands:
            if c in self.known:
                return c
        for c in cands:
            if os.path.isabs(c):
                real = os.path.realpath(c)
                if real.startswith(self.root + os.sep):
                    return os.path.relpath(real, self.root)
        for c in cands:
            if not os.path.isabs(c) and os.path.exists(os.path.join(self.root, c)):
                return os.path.normpath(c)
        return None

    def __enter__(self):
        from codelimit.common import Scanner

        self._mod = Scanner
        self._orig = getattr(Scanner, "_analyze_file", None)
        if not callable(self._orig):
            self.available = False
            return self
        orig = self._orig

        def wrapper(*args, **kwargs):
            rel = self._map(args, kwargs)
            if rel is None:
                self.available = False
            else:
                self.seen.append(rel)
            return orig(*args, **kwargs)

        Scanner._analyze_file = wrapper
        return self

    def __exit__(self, *exc):
        if callable(self._orig):
            self._mod._analyze_file = self._orig
        return False

    def usable(self, analysed_without_cache: int) -> bool:
        """analysed_without_cache: how many files the scan is known to have analysed afresh (no cache entry could have
        served them). A probe that saw nothing although that number is positive is not connected to the scan."""
        if not self.available:
            return False
        if analysed_without_cache > 0 and not self.seen:
            return False
        return True
