"""Subprocess side of C06. Runs under a PYTHONHASHSEED chosen by the parent.

stdin: JSON {"mode": "files", "items": [[abs_path, rel_path], ...]}                      -> {"digests": [...]}
       {"mode": "isolated", "items": [...]}  (each item analysed in a forked child)     -> {"digests": [...]}
       {"mode": "trees", "t": root, "u": root|None, "walk_seed": n, "excludes": [...]}  -> {"reports": [digest, ...]}
"""
import hashlib
import json
import os
import random
import sys


def analyse(abs_path, rel_path):
    from pygments.lexers import get_lexer_for_filename

    from codelimit.common import Scanner
    from codelimit.common.utils import calculate_checksum

    try:
        lexer = get_lexer_for_filename(rel_path)
        if _private_entry_usable(Scanner):
            entry = Scanner._analyze_file(abs_path, rel_path, calculate_checksum(abs_path), lexer)
            ms, language, loc = entry.measurements(), entry.language, entry.loc
        else:  # the private entry point was refactored away: same pipeline through the public functions
            from codelimit.common.lexer_utils import lex
            from codelimit.languages import Languages
            from vf.gen.malformed import decode_like_tool

            language = lexer.name
            lang = Languages.by_name[language]
            ms = Scanner.scan_file(lex(lexer, decode_like_tool(open(abs_path, "rb").read()), False), lang)
            loc = sum(m.value for m in ms)
        ms = [[m.unit_name, m.start.line, m.start.column, m.end.line, m.end.column, m.value] for m in ms]
        payload = json.dumps([language, loc, ms])
    except Exception as e:  # noqa: BLE001 - an exception is part of the observable result
        payload = f"EXC:{type(e).__name__}"
    return hashlib.blake2b(payload.encode(), digest_size=8).hexdigest()


def _private_entry_usable(Scanner):
    import inspect

    fn = getattr(Scanner, "_analyze_file", None)
    if not callable(fn):
        return False
    try:
        inspect.signature(fn).bind("p", "r", "c", None)
    except TypeError:
        return False
    return True


def isolated(abs_path, rel_path):
    r, w = os.pipe()
    pid = os.fork()
    if pid == 0:
        os.close(r)
        try:
            os.write(w, analyse(abs_path, rel_path).encode())
        finally:
            os._exit(0)
    os.close(w)
    data = b""
    while True:
        chunk = os.read(r, 4096)
        if not chunk:
            break
        data += chunk
    os.close(r)
    os.waitpid(pid, 0)
    return data.decode()


def normalised_report(root, excludes, walk_seed=None):
    from pathlib import Path

    from codelimit.common import Scanner
    from codelimit.common.Configuration import Configuration
    from codelimit.common.report.Report import Report
    from codelimit.common.report.ReportWriter import ReportWriter

    from vf.harness import cli

    cli.reset_config()
    cli.add_excludes(list(excludes))
    Configuration.load(Path(root))
    real_walk = os.walk
    if walk_seed is not None:
        rnd = random.Random(walk_seed)

        def walk(top, *a, **k):
            for r, dirs, files in real_walk(top, *a, **k):
                rnd.shuffle(dirs)
                rnd.shuffle(files)
                yield r, dirs, files

        Scanner.os.walk = walk
    try:
        cb = Scanner.scan_path(Path(root))
    finally:
        Scanner.os.walk = real_walk
    cb.aggregate()
    doc = json.loads(ReportWriter(Report(cb)).to_json())
    doc.pop("uuid", None)
    doc.pop("timestamp", None)
    for v in doc["codebase"]["tree"].values():
        v["entries"] = sorted(v["entries"])
    doc["codebase"]["files"] = dict(sorted(doc["codebase"]["files"].items()))
    doc["codebase"]["tree"] = dict(sorted(doc["codebase"]["tree"].items()))
    doc["codebase"]["totals"] = dict(sorted(doc["codebase"]["totals"].items()))
    return hashlib.blake2b(json.dumps(doc, sort_keys=True).encode(), digest_size=8).hexdigest()


def main():
    req = json.load(sys.stdin)
    if req["mode"] == "files":
        out = {"digests": [analyse(a, r) for a, r in req["items"]]}
    elif req["mode"] == "isolated":
        import codelimit.common.Scanner  # noqa: F401 - import before forking; nothing has been analysed yet

        out = {"digests": [isolated(a, r) for a, r in req["items"]]}
    else:
        # "permute_first": the very first scan of this fresh process already sees the permuted directory order
        reports = [normalised_report(req["t"], req.get("excludes", []), req.get("walk_seed", 1) if req.get("permute_first") else None)]
        if req.get("u"):
            try:
                normalised_report(req["u"], req.get("u_excludes", []))
            except Exception:  # noqa: BLE001
                pass
        reports.append(normalised_report(req["t"], req.get("excludes", [])))
        reports.append(normalised_report(req["t"], req.get("excludes", []), req.get("walk_seed", 1)))
        out = {"reports": reports}
    json.dump(out, sys.stdout)


if __name__ == "__main__":
    main()
