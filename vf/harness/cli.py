"""In-process invocation of codelimit's commands with the global state a fresh CLI process would have.

Every call: chdir to the given working directory, reset Configuration (class-level state), apply --exclude options,
Configuration.load(<root>) exactly as __main__ does, run the command with stdout captured, catch typer.Exit.
"""
from __future__ import annotations

import contextlib
import io
import os
import re
import subprocess
import sys
from pathlib import Path

from vf.common import REPO, exc_bucket


class Result:
    def __init__(self, code, out, exc=None):
        self.code = code  # exit status (0 when the command returned normally)
        self.out = out
        self.exc = exc  # None | (bucket, text) when something other than typer.Exit escaped

    def __repr__(self):
        return f"Result(code={self.code}, exc={self.exc and self.exc[0]}, out={self.out[:200]!r})"


def reset_config():
    """The state a fresh CLI process has. The exclusion container is emptied in place (whatever its type is), as a new
    process would find it; it is only re-created if it cannot be emptied."""
    from codelimit.common.Configuration import Configuration

    try:
        Configuration.exclude.clear()
    except AttributeError:
        Configuration.exclude = []
    Configuration.verbose = False
    Configuration.repository = None


def add_excludes(patterns):
    """What `--exclude a --exclude b` does in codelimit.__main__ (extend the class-level container)."""
    from codelimit.common.Configuration import Configuration

    ex = Configuration.exclude
    if hasattr(ex, "extend"):
        ex.extend(patterns)
    else:
        ex.update(patterns)


@contextlib.contextmanager
def _cwd(path):
    old = os.getcwd()
    os.chdir(path)
    try:
        yield
    finally:
        os.chdir(old)


def _invoke(fn, cwd):
    import typer
    import logging

    from vf.common import CaseTimeout

    buf = io.StringIO()
    code, exc = 0, None
    root_logger = logging.getLogger()
    handlers = list(root_logger.handlers)
    with _cwd(cwd), contextlib.redirect_stdout(buf), contextlib.redirect_stderr(io.StringIO()):
        try:
            fn()
        except typer.Exit as e:
            code = e.exit_code
        except SystemExit as e:
            code = e.code if isinstance(e.code, int) else 1
        except CaseTimeout:
            raise
        except Exception as e:  # noqa: BLE001
            exc = exc_bucket(e)
            code = None
        finally:
            root_logger.handlers[:] = handlers
    return Result(code, buf.getvalue(), exc)


def _entry(name, **kwargs):
    """The command's entry function in codelimit.__main__ (what the console script calls after option parsing), or None
    when it cannot be called with these keywords - the callers then wire the command up by hand, as before."""
    import inspect

    try:
        import codelimit.__main__ as main
    except Exception:  # noqa: BLE001 - e.g. an optional dependency of the CLI module is missing
        return None
    fn = getattr(main, name, None)
    if not callable(fn):
        return None
    try:
        inspect.signature(fn).bind(**kwargs)
    except (TypeError, ValueError):
        return None
    # the entry point shells out to git to find a GitHub remote; temp trees have none, and the properties that need a
    # repository set Configuration.repository themselves
    if hasattr(main, "configure_github_repository"):
        main.configure_github_repository = lambda path: None
    return lambda: fn(**kwargs)


def run_check(cwd, paths, quiet=False, excludes=(), entry=True):
    """codelimit check [--exclude x]... [--quiet] paths...   with the working directory `cwd`: through the entry function
    of codelimit.__main__ (option handling, configuration loading, logging set-up included)."""
    from codelimit.commands.check import check_command
    from codelimit.common.Configuration import Configuration

    def fn():
        reset_config()
        call = _entry("check", paths=[Path(p) for p in paths], exclude=list(excludes) or None, quiet=quiet, verbose=False) if entry else None
        if call is not None:
            return call()
        if excludes:
            add_excludes(excludes)
        Configuration.load(Path("."))
        check_command([Path(p) for p in paths], quiet)

    return _invoke(fn, cwd)


def run_scan(cwd, path=".", excludes=(), entry=True, verbose=False):
    """codelimit scan [--exclude x]... path     through the entry function of codelimit.__main__ (see _entry)."""
    from codelimit.commands.scan import scan_command
    from codelimit.common.Configuration import Configuration

    def fn():
        reset_config()
        call = _entry("scan", path=Path(path), exclude=list(excludes) or None, verbose=verbose) if entry else None
        if call is not None:
            return call()
        if excludes:
            add_excludes(excludes)
        if verbose:
            Configuration.verbose = True
        Configuration.load(Path(path))
        scan_command(Path(path))

    return _invoke(fn, cwd)


def run_report(cwd, path=".", fmt="text", diff=None, entry=True):
    from codelimit.commands.report import report_command
    from codelimit.common.Configuration import Configuration
    from codelimit.common.report.ReportFormat import ReportFormat

    def fn():
        reset_config()
        call = _entry("report", path=Path(path), diff=Path(diff) if diff else None, fmt=ReportFormat(fmt)) if entry else None
        if call is not None:
            return call()
        Configuration.load(Path(path))
        report_command(Path(path), ReportFormat(fmt), Path(diff) if diff else None)

    return _invoke(fn, cwd)


def run_findings(cwd, path=".", full=False, fmt="text", entry=True):
    from codelimit.commands.findings import findings_command
    from codelimit.common.Configuration import Configuration
    from codelimit.common.report.ReportFormat import ReportFormat

    def fn():
        reset_config()
        call = _entry("findings", path=Path(path), full=full, fmt=ReportFormat(fmt)) if entry else None
        if call is not None:
            return call()
        Configuration.load(Path(path))
        findings_command(Path(path), full, ReportFormat(fmt))

    return _invoke(fn, cwd)


def run_subprocess(cwd, args, timeout=120):
    """python -m codelimit <args> as a real process. -> (returncode, stdout, stderr)"""
    env = dict(os.environ)
    env["PYTHONPATH"] = str(REPO)
    env["COLUMNS"] = "400"
    for k in ("GITHUB_REF", "GITHUB_HEAD_REF"):
        env.pop(k, None)
    p = subprocess.run([sys.executable, "-m", "codelimit", *args], cwd=cwd, env=env, capture_output=True, text=True, timeout=timeout)
    return p.returncode, p.stdout, p.stderr


_LINE = re.compile(r"^(?P<path>.*?):(?P<line>\d+):(?P<col>\d+): (?P<len>\d+) (?P<sym>\S+) (?P<name>.*)$")
_SUMMARY_BAD = re.compile(r"^(\d+) files checked, (\d+) functions need refactoring\.$")
_SUMMARY_OK = re.compile(r"^(\d+) files checked, .*Refactoring not necessary.*$")


def parse_check_output(out):
    """-> {'findings': [(path, line, col, length, symbol, name)], 'files_checked': n|None, 'need_refactoring': n|None,
    'other': [lines that are neither], 'summary_numbers': None | [ints]}

    The summary is first read in today's wording (then files_checked / need_refactoring are exact). When no line has that
    wording - the message was reworded - the integers of the non-finding lines are handed out as 'summary_numbers' and
    the callers only require the expected counts to be among them: a reworded message is no violation of any property."""
    findings, other = [], []
    files_checked = need = None
    for ln in out.splitlines():
        if not ln.strip():
            continue
        m = _SUMMARY_BAD.match(ln.strip())
        if m:
            files_checked, need = int(m.group(1)), int(m.group(2))
            continue
        m = _SUMMARY_OK.match(ln.strip())
        if m:
            files_checked, need = int(m.group(1)), 0
            continue
        m = _LINE.match(ln)
        if m:
            findings.append((m.group("path"), int(m.group("line")), int(m.group("col")), int(m.group("len")), m.group("sym"), m.group("name")))
        else:
            other.append(ln)
    numbers = None
    if files_checked is None and other:
        numbers = [int(x) for ln in other for x in re.findall(r"\d+", ln)]
    return {"findings": findings, "files_checked": files_checked, "need_refactoring": need, "other": other, "summary_numbers": numbers}


def summary_matches(parsed, files_expected, need_expected):
    """None if the summary agrees with the expected counts, else a short description. Exact in today's wording; for a
    reworded summary the counts only have to occur in it (a function count of 0 may be left unsaid)."""
    if parsed["files_checked"] is not None:
        if parsed["need_refactoring"] != need_expected:
            return f"summary says {parsed['need_refactoring']} functions need refactoring, expected {need_expected}"
        if parsed["files_checked"] != files_expected:
            return f"summary says {parsed['files_checked']} files checked, expected {files_expected}"
        return None
    nums = parsed["summary_numbers"]
    if nums is None:
        return "no summary line"
    if need_expected and need_expected not in nums:
        return f"no summary figure equals the {need_expected} functions that need refactoring (figures {nums})"
    if files_expected not in nums:
        return f"no summary figure equals the {files_expected} files checked (figures {nums})"
    return None
