"""Shared helpers: paths, digests, seeds, calling the code under test, Hypothesis drivers."""
from __future__ import annotations

import hashlib
import json
import os
import subprocess
import sys
import traceback
from pathlib import Path

HOME = Path(os.environ.get("VERIF_HOME", Path(__file__).resolve().parent.parent))
REPO = Path(os.environ.get("VERIF_REPO", "/repo"))


def jdump(obj) -> str:
    return json.dumps(obj, sort_keys=True, ensure_ascii=False, default=str)


def digest(obj) -> str:
    if not isinstance(obj, (str, bytes)):
        obj = jdump(obj)
    if isinstance(obj, str):
        obj = obj.encode("utf-8", "surrogatepass")
    return hashlib.blake2b(obj, digest_size=8).hexdigest()


def shard_seed(seed: int, pid: str, shard) -> int:
    h = hashlib.blake2b(f"{seed}:{pid}:{shard}".encode(), digest_size=4).digest()
    return int.from_bytes(h, "big")


def assert_sut():
    """The code under test must be the working tree under REPO (rebuild rule: pure Python => import)."""
    import codelimit

    f = Path(codelimit.__file__).resolve()
    if not str(f).startswith(str(REPO.resolve()) + os.sep):
        raise RuntimeError(f"codelimit imported from {f}, expected under {REPO}")


_TREE = None


def tree_id() -> str:
    global _TREE
    if _TREE is None:
        try:
            head = subprocess.run(
                ["git", "-C", str(REPO), "rev-parse", "--short", "HEAD"], capture_output=True, text=True, timeout=20
            ).stdout.strip()
            dirty = subprocess.run(
                ["git", "-C", str(REPO), "status", "--porcelain", "--", "codelimit"],
                capture_output=True,
                text=True,
                timeout=20,
            ).stdout.strip()
            _TREE = head + ("+dirty" if dirty else "")
        except Exception:
            _TREE = "unknown"
    return _TREE


class CaseTimeout(Exception):
    """Raised by the per-case watchdog (SIGALRM). Defined here so that `python -m vf.runner` (module __main__) and
    importers of vf.runner share ONE class."""


class watchdog:
    """with watchdog(seconds): ...   raises CaseTimeout inside the block when it runs too long (SIGALRM, main thread).
    For tight enumeration loops that do not go through Collector.eval."""

    def __init__(self, seconds):
        self.seconds = seconds

    def __enter__(self):
        import signal

        def _alarm(signum, frame):
            raise CaseTimeout()

        self._old = signal.signal(signal.SIGALRM, _alarm)
        signal.setitimer(signal.ITIMER_REAL, self.seconds)
        return self

    def __exit__(self, *exc):
        import signal

        signal.setitimer(signal.ITIMER_REAL, 0)
        signal.signal(signal.SIGALRM, self._old)
        return False


class SutError(Exception):
    """An exception that escaped from the code under test (innermost frame under REPO/codelimit)."""

    def __init__(self, bucket, text):
        super().__init__(bucket)
        self.bucket = bucket
        self.text = text


def exc_bucket(exc: BaseException) -> tuple[str, str]:
    """(bucket, rendered traceback): bucket = exception type + innermost frame under REPO/codelimit."""
    tb = traceback.extract_tb(exc.__traceback__)
    inner = None
    root = str(REPO.resolve() / "codelimit")
    for fr in tb:
        if fr.filename.startswith(root):
            inner = fr
    where = f"{Path(inner.filename).name}:{inner.name}" if inner else "outside-codelimit"
    text = "".join(traceback.format_exception(type(exc), exc, exc.__traceback__))
    return f"{type(exc).__name__}@{where}", text[-3000:]


def call_sut(fn, *args, **kwargs):
    """Call into the code under test. Returns ('ok', value) or ('exc', bucket, text).

    RecursionError / MemoryError count as SUT failures too. A CaseTimeout (watchdog) propagates.
    """
    try:
        return ("ok", fn(*args, **kwargs))
    except CaseTimeout:
        raise
    except Exception as exc:  # noqa: BLE001 - classification happens below
        b, text = exc_bucket(exc)
        return ("exc", b, text)


# --------------------------------------------------------------------------- Hypothesis


def run_given(test_body, strategy, seed: int, max_examples: int):
    """Drive `test_body(value)` with Hypothesis as a pure generator (collect-then-shrink: the body never
    raises for oracle failures; it records them in the collector)."""
    import hypothesis
    from hypothesis import HealthCheck, Phase, given, settings

    st = settings(
        max_examples=max_examples,
        database=None,
        deadline=None,
        derandomize=False,
        report_multiple_bugs=False,
        phases=(Phase.generate,),
        suppress_health_check=[HealthCheck.too_slow, HealthCheck.data_too_large, HealthCheck.large_base_example],
        print_blob=False,
    )

    @hypothesis.seed(seed)
    @st
    @given(strategy)
    def _t(value):
        test_body(value)

    _t()


def spread(total: int, n: int) -> list[int]:
    base, rem = divmod(total, n)
    return [base + (1 if i < rem else 0) for i in range(n)]


def open_known(pid: str):
    """Open known-finding entries for a property (read-only file)."""
    p = HOME / "known_findings.json"
    if not p.exists():
        return []
    return [k for k in json.loads(p.read_text()).get("findings", []) if k.get("status") == "open" and k.get("property") == pid]


def withheld_constructs(pid: str):
    """Construct names the generators withhold because an open known finding covers them."""
    out = set()
    for k in open_known(pid):
        out.update(k.get("withhold", []))
    return out
