"""C05 - every reported measurement is well-formed, for every input.

Domain : valid inputs (canonical programs, corpus files) and malformed ones (vf/gen/malformed.py: prefixes / suffixes at
         token boundaries, token / line deletion, duplication, swaps, bracket flips, unbalanced insertions, token soups
         over each language's lexical alphabet, headers cut at the end of input, deep nesting, raw byte noise), in all
         7 languages. Observed at scan_file; a sample also at scan_path (loc = sum of lengths).
Oracle : invariants evaluated from an independent Pygments tokenisation with the harness's own offset -> (line, col):
         1 <= start line <= end line <= number of lines, columns in range; start = position of a code token, end = just
         past a code token; name = text of a Name token inside the span; 1 <= length <= number of code-bearing lines of
         the span; source order with pairwise distinct starts; file loc = sum of lengths.
"""
from __future__ import annotations

from hypothesis import strategies as st

from vf.common import call_sut, run_given, shard_seed
from vf.gen import malformed as M
from vf.gen import programs as P
from vf.harness import tree
from vf.props.c04 import corpus, read_corpus

ID = "C05"
LEVEL = "exploration"
RULE = (
    "Hypothesis: language x input class {canonical, corpus, structured mutation of either, token soup, header cut at "
    "EOF, deep nesting, byte noise}; each input is analysed once and every returned measurement is checked against "
    "the invariants. Non-trivial = the input is malformed (not produced by the grammar / not a corpus file as is) AND "
    "at least one measurement is returned; distinct by (language, text)"
)
ASSUMPTIONS = [
    "number of lines = text.count('\\n') + 1 (the most permissive reading); a line is '\\n'-delimited",
    "code token = Pygments token that is not blank Text/Whitespace and not a Comment subtype, with non-empty text",
    "an input on which the analysis raises is C03's subject; here it is only counted (label 'crashed')",
]
FLOOR = {"quick": 600, "thorough": 8000}


def lexer(lang):
    from pygments.lexers import get_lexer_by_name

    return get_lexer_by_name(P.LEXER[lang])


def tokens_info(lang, text):
    import pygments.token as T

    code, names = [], []
    for off, tt, val in lexer(lang).get_tokens_unprocessed(text):
        if not val:
            continue
        if (tt is T.Text or tt is T.Whitespace) and val.isspace():
            continue
        if tt in T.Comment:
            continue
        code.append((off, off + len(val)))
        if tt in T.Name:
            names.append((off, off + len(val), val))
    return code, names


def _off(text, starts, line, col):
    """offset of (line, col), col may be one past the end of the line"""
    return starts[line - 1] + col - 1


def check_measurements(lang, text, ms):
    """ms: [(name, sl, sc, el, ec, length)]"""
    nlines = text.count("\n") + 1
    lines = text.split("\n")
    starts = [0]
    for ln in lines[:-1]:
        starts.append(starts[-1] + len(ln) + 1)
    code, names = tokens_info(lang, text)
    code_starts = {a for a, _ in code}
    code_ends = {b for _, b in code}
    prev = None
    for m in ms:
        name, sl, sc, el, ec, length = m
        for v in (sl, sc, el, ec, length):
            if not isinstance(v, int) or isinstance(v, bool):
                return ("not-an-integer", f"{m}")
        if not (1 <= sl <= el <= nlines):
            return ("line-out-of-range", f"{m}: lines must satisfy 1 <= {sl} <= {el} <= {nlines}")
        if not (1 <= sc <= len(lines[sl - 1]) + 1):
            return ("start-column-out-of-range", f"{m}: start column {sc}, line {sl} has {len(lines[sl - 1])} characters")
        if not (1 <= ec <= len(lines[el - 1]) + 1):
            return ("end-column-out-of-range", f"{m}: end column {ec}, line {el} has {len(lines[el - 1])} characters")
        so, eo = _off(text, starts, sl, sc), _off(text, starts, el, ec)
        if so not in code_starts:
            return ("start-not-at-code-token", f"{m}: no code token starts at {sl}:{sc} ({text[so:so + 12]!r})")
        if eo not in code_ends:
            return ("end-not-after-code-token", f"{m}: no code token ends just before {el}:{ec} ({text[max(0, eo - 12):eo]!r})")
        if eo <= so:
            return ("empty-or-negative-span", f"{m}")
        if not any(a >= so and b <= eo and v == name for a, b, v in names):
            return ("name-not-in-span", f"{m}: no identifier token with text {name!r} inside the span")
        bearing = set()
        for a, b in code:
            if b <= so or a >= eo:
                continue
            a2, b2 = max(a, so), min(b, eo)
            l1 = text.count("\n", 0, a2) + 1
            l2 = text.count("\n", 0, max(a2, b2 - 1)) + 1
            bearing.update(range(l1, l2 + 1))
        if not (1 <= length <= len(bearing)):
            return ("length-out-of-range", f"{m}: length {length}, the span has {len(bearing)} code-bearing lines")
        if prev is not None and not ((sl, sc) > prev):
            return ("order-or-duplicate-start", f"{m} listed after a measurement starting at {prev}")
        prev = (sl, sc)
    return None


def scan(lang, text):
    from vf.props.c01 import tool_scan_file

    return tool_scan_file(lang, text)


def run_case(case):
    lang = case["lang"]
    if "bytes_hex" in case:
        data = bytes.fromhex(case["bytes_hex"])
        text = M.decode_like_tool(data)
    else:
        text = case["text"]
    if case.get("via") == "scan_path":
        return check_via_scan_path(lang, case, text)
    r = call_sut(scan, lang, text)
    if r[0] == "exc":
        return None  # C03
    bad = check_measurements(lang, text, r[1])
    if bad:
        return (f"{lang}:{bad[0]}", f"{bad[1]}\n--- input:\n{text[:3000]}")
    return None


def check_via_scan_path(lang, case, text):
    from codelimit.common.Scanner import scan_path

    rel = f"pkg/prog.{tree.EXT[lang]}"
    content = bytes.fromhex(case["bytes_hex"]) if "bytes_hex" in case else text.encode("utf-8", "surrogatepass")
    text = M.decode_like_tool(content)  # the reader opens files in text mode: CR and CRLF arrive as LF
    with tree.temp_tree({rel: content}) as root:
        r = call_sut(scan_path, root)
        if r[0] == "exc":
            return None  # C03
        e = r[1].files.get(rel)
        if e is None:
            return (f"{lang}:file-not-scanned", "scan_path skipped the file")
        ms = [(m.unit_name, m.start.line, m.start.column, m.end.line, m.end.column, m.value) for m in e.measurements()]
        if e.loc != sum(m[5] for m in ms):
            return (f"{lang}:loc-not-sum", f"entry.loc {e.loc} != sum of lengths {sum(m[5] for m in ms)}")
    bad = check_measurements(lang, text, ms)
    if bad:
        return (f"{lang}:{bad[0]}", f"{bad[1]}\n--- input:\n{text[:3000]}")
    return None


def shrink_candidates(case):
    if "bytes_hex" in case:
        data = bytes.fromhex(case["bytes_hex"])
        n = len(data)
        step = max(1, n // 8)
        while step >= 1:
            for i in range(0, n, step):
                yield dict(case, bytes_hex=(data[:i] + data[i + step :]).hex())
            if step == 1:
                break
            step //= 2
        return
    if case.get("via") == "scan_path":
        yield dict(case, via="scan_file")
    t = case["text"]
    lines = t.split("\n")
    if len(lines) > 1:
        k = max(1, len(lines) // 4)
        while k >= 1:
            for i in range(0, len(lines), k):
                yield dict(case, text="\n".join(lines[:i] + lines[i + k :]))
            if k == 1:
                break
            k //= 2
    n = len(t)
    step = max(1, n // 16)
    while step >= 1 and n < 4000:
        for i in range(0, n, step):
            yield dict(case, text=t[:i] + t[i + step :])
        if step == 1:
            break
        step //= 2


# --------------------------------------------------------------------------- shared input generator (also used by C03)


@st.composite
def inputs(draw, lang, files, big=False):
    """-> (class label, malformed?, case dict)"""
    cls = draw(st.sampled_from(["canonical", "corpus", "mutated", "mutated", "mutated2", "soup", "soup", "noise", "cut"]))
    if cls in ("canonical", "mutated", "mutated2", "noise", "cut") or not files:
        rnd = draw(st.randoms(use_true_random=False))
        base = P.render(P.gen_program(rnd, lang, draw(st.sampled_from([8, 16, 30] + ([60] if big else []))))).text
    if (cls == "corpus" or (cls in ("mutated", "mutated2") and draw(st.booleans()))) and files:
        base = read_corpus(draw(st.sampled_from(files)))
        if len(base) > 6000 and cls != "corpus":
            a = draw(st.integers(0, len(base) - 6000))
            a = base.rfind("\n", 0, a) + 1
            base = base[a : a + 6000]
    if cls == "canonical":
        return cls, False, {"lang": lang, "text": base}
    if cls == "corpus":
        if not files:
            return "canonical", False, {"lang": lang, "text": base}
        return cls, False, {"lang": lang, "text": base}
    if cls == "mutated":
        kind, text = draw(M.mutations(lang, base))
        return f"mutated:{kind}", True, {"lang": lang, "text": text}
    if cls == "mutated2":
        k1, text = draw(M.mutations(lang, base))
        k2, text = draw(M.mutations(lang, text))
        return "mutated:two", True, {"lang": lang, "text": text}
    if cls == "soup":
        return cls, True, {"lang": lang, "text": draw(M.soups(lang, 120 if big else 60))}
    if cls == "cut":
        spans = M.token_spans(lang, base)
        if not spans:
            return "canonical", False, {"lang": lang, "text": base}
        s = draw(st.sampled_from(spans))
        return "cut:prefix" if draw(st.booleans()) else "cut:suffix", True, {"lang": lang, "text": base[: s[1]] if draw(st.booleans()) else base[s[0] :]}
    data = draw(M.noisy_bytes(base))
    return "noise", True, {"lang": lang, "bytes_hex": data.hex()}


def gen(col, seed, n, lang):
    files = [rel for lg, rel in corpus() if lg == lang]

    def body(v):
        cls, malformed, case = v
        if draw_via(case):
            case = dict(case, via="scan_path")
        text = M.decode_like_tool(bytes.fromhex(case["bytes_hex"])) if "bytes_hex" in case else case["text"]
        r = call_sut(scan, lang, text)
        labels = [f"class:{cls.split(':')[0]}", f"lang:{lang}"]
        if r[0] == "exc":
            col.evals += 1
            col.label(*labels, "crashed")
            return
        nt = malformed and len(r[1]) >= 1
        if r[1]:
            labels.append("has-measurements")
        col.eval(case, nontrivial=nt, labels=labels, distinct_key=lang + text)
        col.samples = [s if not (isinstance(s, dict) and len(s.get("text", "")) > 600) else dict(s, text=s["text"][:600] + "...(truncated)") for s in col.samples]

    def draw_via(case):
        return hash(case.get("text", case.get("bytes_hex", ""))) % 10 == 0

    run_given(body, inputs(lang, files), seed, n)


def templates(col, lang):
    for t in M.header_cuts(lang):
        col.eval({"lang": lang, "text": t}, nontrivial=False, labels=["class:header-cut", f"lang:{lang}"])
    for t in M.bodiless_templates(lang):
        r = call_sut(scan, lang, t)
        col.eval({"lang": lang, "text": t}, nontrivial=r[0] == "ok" and len(r[1]) >= 1, labels=["class:bodiless-header", f"lang:{lang}"])
    # tab-indented sources, as files on disk (the file route must report positions of the text as it is in the file)
    tabbed = {
        "Python": ["class K:\n\tdef m(self):\n\t\treturn 1\n\tdef n(self, a):\n\t\tif a:\n\t\t\treturn a\n\t\treturn 0\n", "def f(a):\n\tx = 1\t# c\n\treturn x\n",
                   "def o():\n\tdef i(b):\t\n\t\treturn\tb\n\treturn i\n", "if x:\n\tdef f(a):\n\t\treturn a\n"],
    }.get(lang) or [tree.flat_file(lang, [3, 2]).replace("  ", "\t"), "\t" + tree.flat_file(lang, [4]).replace("\n", "\n\t")]
    for t in tabbed:
        for via in ("scan_file", "scan_path"):
            col.eval({"lang": lang, "text": t, "via": via}, nontrivial=True, labels=["class:tab-indented", f"lang:{lang}", f"via:{via}"])
    from vf.gen.lasttoken import multiline_last_token_templates

    for t in multiline_last_token_templates(lang):
        r = call_sut(scan, lang, t)
        col.eval({"lang": lang, "text": t}, nontrivial=r[0] == "ok" and len(r[1]) >= 1, labels=["class:multi-line-last-token", f"lang:{lang}"])
    for d in (1, 2, 5, 30):
        for kind, t in M.deep_templates(lang, d):
            r = call_sut(scan, lang, t)
            nt = r[0] == "ok" and len(r[1]) >= 1
            col.eval({"lang": lang, "text": t}, nontrivial=nt, labels=["class:deep", f"lang:{lang}"])


def atheris_campaign(col, seed, runs, seeded):
    """Coverage-guided engine (atheris / libFuzzer) with this property's oracle inside the target; findings are
    re-validated through run_case. Skipped with an 'inconclusive' note when atheris cannot be installed offline."""
    from vf.fuzz import campaign

    campaign.run(col, ID, seed, runs, seeded)


def plan(tier, seed):
    quick = tier == "quick"
    per = 640 if quick else 8000
    jobs = []
    for lang in P.LANGS:
        for k in range(2 if quick else 4):
            jobs.append(("gen", {"seed": shard_seed(seed, ID, f"{lang}{k}"), "n": per // (2 if quick else 4), "lang": lang}))
        jobs.append(("templates", {"lang": lang}))
    for k, seeded in enumerate([False, True] if quick else [False, True, False, True, False, True]):
        jobs.append(("atheris_campaign", {"seed": shard_seed(seed, ID, f"fz{k}"), "runs": 2000 if quick else 150000, "seeded": seeded}))
    return jobs
