"""C03 - analysis is total: no file content makes scan or check fail or hang.

Domain : for each of the 7 languages: canonical programs and corpus files mutated structurally (prefix / suffix at
         every kind of token boundary, token / line deletion, duplication, swap, bracket flip, unbalanced insertion, a
         header losing its body), random token soups over the language's lexical alphabet, headers cut at the end of
         input after each of their tokens, nesting 1..3000 deep (parentheses, blocks, nested functions, calls), 5000-line
         flat files, raw byte noise (non-UTF-8 bytes, BOM, NUL, CR / CRLF). Entry points: scan_file (all cases);
         scan_path + ReportWriter + json.loads with the raw bytes on disk (30 %); check_command naming the file
         relatively, absolutely, through its directory, through the root, from a sibling working directory with an
         absolute path and with a '../' path (30 %); `python -m codelimit check|scan` as a real process (sample).
Oracle : returns a list / writes a parseable report / exits 0 or 1; no exception other than typer.Exit escapes; no
         watchdog expiry (60 s per case).
"""
from __future__ import annotations

import json
import os

from hypothesis import strategies as st

from vf.common import call_sut, digest, run_given, shard_seed
from vf.gen import malformed as M
from vf.gen import programs as P
from vf.harness import cli, tree
from vf.props.c04 import corpus
from vf.props.c05 import inputs

ID = "C03"
LEVEL = "exploration"
RULE = (
    "Hypothesis: language x input class (mutation of a valid program, token soup, cut, byte noise, valid) x entry point "
    "mix; deterministic templates: every header cut, deep nesting at depths up to 3000, long flat files. "
    "Non-trivial = the input is malformed (mutated, cut, random or noisy) and contains at least one token a header "
    "pattern can start on (an identifier or def/function/const keyword); distinct by (language, content)"
)
ASSUMPTIONS = [
    "a per-case watchdog of 60 s (400 s for the templates nested deeper than 1000) turns a hang into a reported violation; a slow tier is never a violation",
    "the subprocess sample only uses option-free command lines (the sandbox's typer/click pair mis-parses options)",
    "file-level entry points receive the raw bytes; scan_file receives what the tool's reader decodes from them",
]
FLOOR = {"quick": 1500, "thorough": 10000}


def scan(lang, text):
    from vf.props.c01 import tool_scan_file

    return tool_scan_file(lang, text)


def _content(case):
    if "bytes_hex" in case:
        data = bytes.fromhex(case["bytes_hex"])
        return data, M.decode_like_tool(data)
    return case["text"].encode("utf-8", "surrogatepass"), case["text"]


def check_scan_path(lang, data):
    from codelimit.common.Scanner import scan_path
    from codelimit.common.report.Report import Report
    from codelimit.common.report.ReportWriter import ReportWriter

    rel = f"pkg/prog.{tree.EXT[lang]}"
    with tree.temp_tree({rel: data, "other.txt": "x"}) as root:

        def go():
            cb = scan_path(root)
            cb.aggregate()
            return ReportWriter(Report(cb)).to_json(), cb

        r = call_sut(go)
        if r[0] == "exc":
            return (f"scan_path:{r[1]}", r[2])
        text, cb = r[1]
        try:
            doc = json.loads(text)
        except ValueError as e:
            return ("scan_path:report-not-json", str(e))
        if rel not in doc["codebase"]["files"]:
            return ("scan_path:file-missing-from-report", f"{rel} not in report")
    return None


WAYS = ["rel-file", "abs-file", "rel-dir", "root-dot", "abs-root-from-sibling", "dotdot-from-sibling", "dotdot-from-subdir", "abs-file-from-prefix-sibling",
        "abs-root-from-prefix-sibling"]


def check_check_command(lang, data, ways):
    rel = f"pkg/prog.{tree.EXT[lang]}"
    with tree.temp_tree({rel: data}) as root:
        other = root.parent / "other"
        other.mkdir()
        prefix_sibling = root.parent / "roo"  # a sibling whose path is a plain string prefix of the root's path
        prefix_sibling.mkdir()
        for way in ways:
            cwd, path = {
                "rel-file": (root, rel),
                "abs-file": (root, str(root / rel)),
                "rel-dir": (root, "pkg"),
                "root-dot": (root, "."),
                "abs-root-from-sibling": (other, str(root)),
                "dotdot-from-sibling": (other, "../root/pkg"),
                "dotdot-from-subdir": (root / "pkg", f"../pkg/prog.{tree.EXT[lang]}"),
                "abs-file-from-prefix-sibling": (prefix_sibling, str(root / rel)),
                "abs-root-from-prefix-sibling": (prefix_sibling, str(root)),
            }[way]
            res = cli.run_check(cwd, [path], quiet=False)
            if res.exc:
                return (f"check:{way}:{res.exc[0]}", res.exc[1])
            if res.code not in (0, 1):
                return (f"check:{way}:exit-status", f"exit status {res.code}\n{res.out[:500]}")
    return None


def check_subprocess(lang, data):
    rel = f"pkg/prog.{tree.EXT[lang]}"
    with tree.temp_tree({rel: data}) as root:
        for args in (["check", rel], ["scan", "."]):
            code, out, err = cli.run_subprocess(root, args)
            if code not in (0, 1) or "Traceback" in err or "Traceback" in out:
                tail = (err or out)[-1500:]
                return (f"subprocess:{args[0]}", f"python -m codelimit {' '.join(args)} -> exit {code}\n{tail}")
    return None


def run_case(case):
    lang = case["lang"]
    data, text = _content(case)
    r = call_sut(scan, lang, text)
    if r[0] == "exc":
        return (f"scan_file:{r[1]}", f"{r[2]}\n--- input:\n{text[:2000]}")
    if not isinstance(r[1], list):
        return ("scan_file:not-a-list", repr(r[1])[:200])
    ep = case.get("entry", [])
    if "scan_path" in ep:
        bad = check_scan_path(lang, data)
        if bad:
            return bad
    ways = [w for w in ep if w in WAYS]
    if ways:
        bad = check_check_command(lang, data, ways)
        if bad:
            return bad
    if "subprocess" in ep:
        bad = check_subprocess(lang, data)
        if bad:
            return bad
    if "scan_command" in ep:
        bad = check_scan_command(lang, data)
        if bad:
            return bad
    return None


def shrink_candidates(case):
    from vf.props.c05 import shrink_candidates as sc

    ep = case.get("entry", [])
    for i in range(len(ep)):
        yield dict(case, entry=ep[:i] + ep[i + 1 :])
    for c in sc({k: v for k, v in case.items() if k != "via"}):
        yield dict(c, entry=ep)


def _startable(lang, text):
    """The input holds a token a header pattern can start on."""
    import pygments.token as T
    from pygments.lexers import get_lexer_by_name

    for _, tt, val in get_lexer_by_name(P.LEXER[lang]).get_tokens_unprocessed(text[:20000]):
        if tt in T.Name or (tt in T.Keyword and val in ("def", "function", "const")):
            return True
    return False


def gen(col, seed, n, lang, subprocess_every):
    files = [rel for lg, rel in corpus() if lg == lang]
    strat = st.tuples(inputs(lang, files), st.integers(0, 9), st.lists(st.sampled_from(WAYS), min_size=1, max_size=3, unique=True), st.integers(0, max(1, subprocess_every) - 1))

    def body(v):
        (cls, malformed, case), r, ways, sp = v
        entry = []
        if r < 3:
            entry.append("scan_path" if r else "scan_command")
        elif r < 6:
            entry += ways
        if subprocess_every and int(digest(case.get("bytes_hex", case.get("text", ""))), 16) % subprocess_every == 0:
            entry.append("subprocess")
        case = dict(case, entry=entry)
        _, text = _content(case)
        nt = malformed and _startable(lang, text)
        labels = [f"class:{cls.split(':')[0]}", f"lang:{lang}"] + [f"entry:{e}" for e in entry]
        col.eval(case, nontrivial=nt, labels=labels, distinct_key=lang + case.get("bytes_hex", case.get("text", "")))
        col.samples = [s if not (isinstance(s, dict) and len(s.get("text", "")) > 500) else dict(s, text=s["text"][:500] + "...(truncated)") for s in col.samples]

    run_given(body, strat, seed, n)


def profile_templates(col):
    """scan_command (which also prints the summary) on one-file trees whose function lengths sit on and around the
    category boundaries, in every combination of up to four functions: the summary arithmetic must terminate too."""
    from itertools import combinations_with_replacement

    pool = [2, 16, 31, 60, 61, 120]
    n = 0
    for k in (1, 2, 3, 4):
        for combo in combinations_with_replacement(pool, k):
            text = tree.flat_file("Python", list(combo))
            col.eval({"lang": "Python", "text": text, "entry": ["scan_command"]}, nontrivial=False, labels=["class:length-profile"], distinct_key="profile:" + repr(combo))
            n += 1
    col.samples = [s if not (isinstance(s, dict) and len(s.get("text", "")) > 300) else dict(s, text=s["text"][:300] + "...(truncated)") for s in col.samples]


def check_scan_command(lang, data):
    rel = f"prog.{tree.EXT[lang]}"
    with tree.temp_tree({rel: data}) as root:
        res = cli.run_scan(root, ".")
        if res.exc:
            return (f"scan_command:{res.exc[0]}", res.exc[1])
        if res.code != 0:
            return ("scan_command:exit-status", f"exit {res.code}")
        try:
            json.loads((root / ".codelimit_cache" / "codelimit.json").read_text())
        except Exception as e:  # noqa: BLE001
            return ("scan_command:no-report", f"{type(e).__name__}: {e}")
    return None


def templates(col, lang, depths, flat_lines, deep_all=False):
    for t in M.header_cuts(lang):
        col.eval({"lang": lang, "text": t, "entry": ["rel-file"] if len(t) % 5 == 0 else []}, nontrivial=_startable(lang, t), labels=["class:header-cut", f"lang:{lang}"])
    for t in M.bodiless_templates(lang):
        col.eval({"lang": lang, "text": t, "entry": ["scan_path"]}, nontrivial=True, labels=["class:bodiless-header", f"lang:{lang}"])
    for t in M.continuation_templates(lang):
        col.eval({"lang": lang, "text": t, "entry": ["scan_path"] if len(t) % 7 == 0 else []}, nontrivial=True, labels=["class:line-continuation", f"lang:{lang}"])
    for d in depths:
        for kind, t in M.deep_templates(lang, d):
            if d > 1000 and kind not in ("deep_nested_functions", "deep_nested_defs", "deep_blocks", "deep_parens") and d not in depths[:-1] and not deep_all:
                continue
            col.eval({"lang": lang, "text": t, "entry": ["rel-dir"] if d <= 100 else []}, nontrivial=True, labels=[f"class:deep", f"depth:{d}", f"lang:{lang}"], distinct_key=f"{lang}:{kind}:{d}",
                     timeout=60 if d <= 1000 else 400)
            col.samples = [s if not (isinstance(s, dict) and len(s.get("text", "")) > 300) else dict(s, text=s["text"][:300] + "...(truncated)") for s in col.samples]
    # a file WITH findings (> 30 and > 60 lines) through every way of naming it: the listing code paths run too
    col.eval({"lang": lang, "text": tree.flat_file(lang, [35, 64, 3]), "entry": list(WAYS) + ["scan_path", "scan_command"]}, nontrivial=False, labels=["class:findings-all-ways", f"lang:{lang}"])
    t = M.long_flat(lang, flat_lines)
    col.eval({"lang": lang, "text": t, "entry": ["scan_path"]}, nontrivial=False, labels=["class:long-flat", f"lang:{lang}"], distinct_key=f"{lang}:flat:{flat_lines}")
    col.samples = [s if not (isinstance(s, dict) and len(s.get("text", "")) > 300) else dict(s, text=s["text"][:300] + "...(truncated)") for s in col.samples]
    for data in (b"", b"\n", b"\xff\xfe", b"\xef\xbb\xbf", b"\x00" * 10, "é".encode("latin-1") * 3, b"def f(:\n\x81"):
        col.eval({"lang": lang, "bytes_hex": data.hex(), "entry": ["scan_path", "rel-file", "root-dot"]}, nontrivial=False, labels=["class:tiny-bytes", f"lang:{lang}"])


def atheris_campaign(col, seed, runs, seeded):
    """Coverage-guided engine (atheris / libFuzzer) with this property's oracle inside the target; findings are
    re-validated through run_case. Skipped with an 'inconclusive' note when atheris cannot be installed offline."""
    from vf.fuzz import campaign

    campaign.run(col, ID, seed, runs, seeded)


def plan(tier, seed):
    quick = tier == "quick"
    per = 420 if quick else 7000
    depths = [1, 3, 10, 100, 600, 1100] if quick else [1, 3, 10, 100, 600, 1100, 1500, 3000]
    jobs = []
    for lang in P.LANGS:
        for k in range(2 if quick else 4):
            jobs.append(("gen", {"seed": shard_seed(seed, ID, f"{lang}{k}"), "n": per // (2 if quick else 4), "lang": lang, "subprocess_every": 60 if quick else 120}))
        jobs.append(("templates", {"lang": lang, "depths": depths, "flat_lines": 1500 if quick else 5000, "deep_all": not quick}))
    jobs.append(("profile_templates", {}))
    for k, seeded in enumerate([False, True] if quick else [False, True, False, True, False, True]):
        jobs.append(("atheris_campaign", {"seed": shard_seed(seed, ID, f"fz{k}"), "runs": 2000 if quick else 150000, "seeded": seeded}))
    return jobs
