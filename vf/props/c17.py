"""C17 - the suppression marker removes exactly the marked function.

Domain : canonical programs (C01 grammar). A random subset of the functions that neither enclose nor are nested in a
         function is marked with a comment on the line of the name token: style (#, //, /* */), letter case, spacing,
         reason text, position (trailing comment on the name's line, or a block comment leading that line). Decoys that
         must NOT suppress are added to other functions: the word later in a comment, a marker on the line above, on a
         later header line, on the first body line, inside a string parameter default.
Oracle : metamorphic - the same program is rendered twice from one AST: with the markers/decoys, and with each of them
         replaced by an equally long neutral comment. result(marked) == result(neutral) minus the marked functions;
         every other function keeps name, span and length.
"""
from __future__ import annotations

import copy

from hypothesis import strategies as st

from vf.common import call_sut, run_given, shard_seed
from vf.gen import programs as P
from vf.props.c01 import tool_scan_file, tool_scan_path

ID = "C17"
LEVEL = "exploration"
RULE = (
    "Hypothesis: canonical program (C01 generator) x subset of eligible functions marked x marker style/case/spacing/"
    "position x decoys on other functions (JavaScript / TypeScript also with the keyword and the name on separate lines); two renderings of one AST are analysed, "
    "as strings through scan_file or as files through scan_path (a third of the files spell every marker with one non-lower-case word). Non-trivial = at least one marked "
    "and one unmarked function, or at least one decoy; distinct by digest of the marked program text"
)
ASSUMPTIONS = [
    "eligible for marking: functions not nested in a function and containing no nested function (statement's second sentence)",
    "multi-line comments that merely end on the name's line and markers glued to other words ('noclue') are not generated",
    "decoys carry the marker word, but not at the beginning of a comment on the name's line",
]
FLOOR = {"quick": 800, "thorough": 10000}
REQUIRED_LABELS = ["mark:trail", "mark:pre", "decoy:word_later", "decoy:above", "decoy:later_header_line", "decoy:first_body_line", "decoy:in_string",
                   "style:#", "style://", "style:/*", "case:upper", "case:mixed", "spacing:none", "spacing:wide", "with_reason",
                   "stray:comment_line", "stray:trailing_on_statement", "decoy_on_marked_function", "ordinary_comment_before_marker"]


def _neutral(text):
    out = []
    i = 0
    low = text.lower()
    while i < len(text):
        if low.startswith("nocl", i):
            rep = "keep"
            out.append("".join(r.upper() if c.isupper() else r for c, r in zip(text[i : i + 4], rep)))
            i += 4
        else:
            out.append(text[i])
            i += 1
    return "".join(out)


def pair(text):
    return {"marked": text, "neutral": _neutral(text)}


def eligible_functions(ast):
    """Function nodes (by path) that are not inside a function and contain no function."""
    out = []

    def contains_func(node):
        for key in ("items", "body", "orelse"):
            for c in node.get(key) or []:
                if c["k"] == "func" or contains_func(c):
                    return True
        return False

    def walk(node, in_func):
        for key in ("items", "body", "orelse"):
            for c in node.get(key) or []:
                if c["k"] == "func":
                    if not in_func and not contains_func(c):
                        out.append(c)
                    walk(c, True)
                else:
                    walk(c, in_func)

    walk(ast, False)
    return out


def all_functions(ast):
    out = []

    def walk(node):
        for key in ("items", "body", "orelse"):
            for c in node.get(key) or []:
                if c["k"] == "func":
                    out.append(c)
                walk(c)

    walk(ast)
    return out


def marker_text(rnd, lang, labels, style=None, word=None):
    word = word or rnd.choice(["nocl", "nocl", "NOCL", "NoCl", "nOcL"])
    labels.add("case:upper" if word == "NOCL" else "case:mixed" if word != "nocl" else "case:lower")
    sp = rnd.choice(["", " ", " ", "  ", "\t"])
    labels.add("spacing:none" if sp == "" else "spacing:wide" if sp in ("  ", "\t") else "spacing:one")
    reason = rnd.choice(["", "", " generated code", ": too long on purpose", " - see docs"])
    if reason:
        labels.add("with_reason")
    if lang == "Python":
        style = "#"
    elif style is None:
        style = rnd.choice(["//", "/*"])
    labels.add(f"style:{style}")
    if style == "#":
        return f"#{sp}{word}{reason}"
    if style == "//":
        return f"//{sp}{word}{reason}"
    return f"/*{sp}{word}{reason} */"


def decorate(ast, rnd, uniform=None):
    """Adds markers and decoys in place; returns (names of marked functions as node ids, labels). uniform: every marker in
    the file is spelled with this one (non-lower-case) word and the lower-case word occurs nowhere else in the file."""
    mt = lambda *a, **k: marker_text(*a, word=uniform, **k)  # noqa: E731
    lang = ast["lang"]
    labels = set()
    if uniform:
        labels.add("uniform-marker-spelling:" + uniform)
    elig = eligible_functions(ast)
    funcs = all_functions(ast)
    marked = []
    if lang in ("JavaScript", "TypeScript"):
        for f in funcs:
            if f.get("shape") == "function" and not f.get("is_async") and not f.get("prefix") and f.get("head", "").startswith("function ") and rnd.random() < 0.3:
                f["kw_break"] = True  # 'function' on one line, the name on the next: the marker belongs on the name's line
                labels.add("keyword_and_name_on_separate_lines")
                if rnd.random() < 0.5:
                    f["kw_tc"] = pair(mt(rnd, lang, set()))  # a marker on the keyword's line is on no name's line
                    labels.add("decoy:keyword_line")
    for f in elig:
        if rnd.random() < 0.45:
            pos = "trail" if lang == "Python" or rnd.random() < 0.65 or f.get("kw_break") else "pre"  # 'pre' sits on the header's first line
            if pos == "trail":
                f["name_tc"] = pair(mt(rnd, lang, labels))
                if lang != "Python" and rnd.random() < 0.3:
                    f["pre_c"] = rnd.choice(["/* helper */", "/* see docs */", "/**/"])  # an ordinary comment earlier on the same line
                    labels.add("ordinary_comment_before_marker")
            else:
                f["pre_c"] = pair(mt(rnd, lang, labels, style="/*"))
            labels.add(f"mark:{pos}")
            f["marked"] = True
            marked.append(f)
    # stray marker comments on lines that are no function's name line: comment-only lines anywhere, trailing on statements
    lists, stmts = [], []

    def collect(node):
        for key in ("items", "body", "orelse"):
            lst = node.get(key)
            if isinstance(lst, list):
                lists.append(lst)
                for c in lst:
                    if c["k"] == "s":
                        stmts.append(c)
                    collect(c)

    collect(ast)
    for _ in range(rnd.choice([0, 0, 1, 2, 3, 5])):
        if stmts and rnd.random() < 0.3:
            rnd.choice(stmts)["tc"] = pair(mt(rnd, lang, set()))
            labels.add("stray:trailing_on_statement")
        else:
            lst = rnd.choice(lists)
            lst.insert(rnd.randint(0, len(lst)), {"k": "cmt", "style": "raw", "lines": [pair(mt(rnd, lang, set()))]})
            labels.add("stray:comment_line")
    if lang == "TypeScript" and all(n["k"] in ("func", "s", "blank", "cmt") for n in ast["items"]):
        # Overload signatures (typed, body-less) right before a top-level function: their header must not pick up a marked
        # function's block. Only in programs whose top level holds nothing but functions and simple statements, so that every
        # brace block is the body of (or inside) a real function and the signature can never enclose a neighbour.
        lst = ast["items"]
        i = 0
        while i < len(lst):
            c = lst[i]
            if c["k"] == "func" and c.get("shape") == "function" and not c.get("is_async") and not c.get("prefix") and rnd.random() < 0.5:
                lst.insert(i, {"k": "s", "t": f"function {c['name']}(first: number): string;", "tc": None})
                labels.add("ts_overload_signature")
                i += 1
            i += 1
    for f in funcs:
        if rnd.random() > 0.4:
            continue
        kinds = ["above", "later_header_line", "first_body_line"] if f.get("marked") or uniform else ["word_later", "above", "later_header_line", "first_body_line", "in_string"]
        kind = rnd.choice(kinds)
        if f.get("marked"):
            labels.add("decoy_on_marked_function")
        lead = "#" if lang == "Python" else "//"
        if kind == "word_later":
            texts = [f"{lead} see nocl", f"{lead} not nocl", f"{lead} todo nocl later", f"{lead} x nocl"]
            # the text after the leader starts with other punctuation, not with the marker
            texts += ["#; nocl", "#;nocl", "# ; nocl"] if lang == "Python" else ["//* nocl", "//*nocl", "/*/ nocl */", "//; nocl", "/* * nocl */"]
            f["name_tc"] = pair(rnd.choice(texts))
        elif kind == "above":
            f["above_c"] = pair(mt(rnd, lang, set()))
        elif kind == "later_header_line":
            if f.get("hdr_lines") and f["params"]:
                f["tc_open"] = pair(mt(rnd, lang, set()))
            elif lang != "Python" and f.get("brace_next"):
                f["tc_open"] = pair(mt(rnd, lang, set()))
            else:
                continue
        elif kind == "first_body_line":
            f["body"].insert(0, {"k": "cmt", "style": "raw", "lines": [pair(mt(rnd, lang, set()))]})
        else:
            if lang in ("Python", "JavaScript"):
                f["params"] = f["params"] + ([f'mode="nocl"'] if lang == "Python" else ['mode = "// nocl"'])
            elif lang in ("TypeScript",):
                f["params"] = f["params"] + ['mode: string = "// nocl"']
            elif lang in ("C++", "C#"):
                f["params"] = f["params"] + [('const char* mode = "// nocl"' if lang == "C++" else 'string mode = "// nocl"')]
            else:
                continue
        labels.add(f"decoy:{kind}")
        f["decoy"] = kind
    return marked, labels


def analyse(ast):
    lang = ast["lang"]
    rd_m = P.render(ast, "marked")
    rd_n = P.render(ast, "neutral")
    marked_idx = []
    # functions in rd.funcs appear in render order == AST order; find the ids of marked nodes
    order = []

    def walk(node):
        for key in ("items", "body", "orelse"):
            for c in node.get(key) or []:
                if c["k"] == "func":
                    order.append(c)
                walk(c)

    walk(ast)
    for i, f in enumerate(order):
        if f.get("marked"):
            marked_idx.append(i)
    return rd_m, rd_n, marked_idx


# --------------------------------------------------------------------------- hand-written layouts the grammar does not produce

def _tpl(lang, text, marked):
    return {"template": {"lang": lang, "text": text, "marked": marked}}


def template_cases():
    """Functions sharing a line, one-line functions directly above another function's name line, markers in each of the
    positions; `marked` lists the functions whose NAME line carries a marker."""
    out = []
    br = {
        "C": ("int one(void) { return 1; } int two(void) { return 2; }", "int {n}(void) {{ return 1; }}", "int {n}(void) {{"),
        "C++": ("int one() { return 1; } int two() { return 2; }", "int {n}() {{ return 1; }}", "int {n}() {{"),
        "JavaScript": ("function one() { return 1; } function two() { return 2; }", "function {n}() {{ return 1; }}", "function {n}() {{"),
        "TypeScript": ("function one(): number { return 1; } function two(): number { return 2; }", "function {n}(): number {{ return 1; }}", "function {n}(): number {{"),
    }
    for lang, (pair_line, one_liner, opener) in br.items():
        body = "  return 3;\n}\n"
        for mk in ("// nocl", "/* nocl */", "// NOCL reason"):
            # two functions on one line, a marker on an unrelated third function
            out.append(_tpl(lang, f"{pair_line}\n{opener.format(n='three')} {mk}\n{body}", ["three"]))
            out.append(_tpl(lang, f"{opener.format(n='three')} {mk}\n{body}{pair_line}\n", ["three"]))
            # a marked one-line function directly above the next function's name line
            out.append(_tpl(lang, f"{one_liner.format(n='a')} {mk}\n{opener.format(n='b')}\n{body}", ["a"]))
            out.append(_tpl(lang, f"{one_liner.format(n='a')} {mk}\n{one_liner.format(n='b')}\n{opener.format(n='c')}\n{body}", ["a"]))
            # marker on the pair line itself removes exactly the two functions named on that line
            out.append(_tpl(lang, f"{pair_line} {mk}\n{opener.format(n='three')}\n{body}", ["one", "two"]))
    for lang, wrap_open in (("Java", "class A {\n"), ("C#", "class A {\n")):
        for mk in ("// nocl", "/* nocl */"):
            out.append(_tpl(lang, f"{wrap_open}  int getX() {{ return x; }} void setX(int v) {{ x = v; }}\n  void big() {{ {mk}\n    x = 1;\n  }}\n}}\n", ["big"]))
            out.append(_tpl(lang, f"{wrap_open}  int a() {{ return 1; }} {mk}\n  int b() {{\n    return 2;\n  }}\n}}\n", ["a"]))
            out.append(_tpl(lang, f"{wrap_open}  int a() {{ return 1; }} {mk}\n  int b() {{ return 2; }}\n  int c() {{ return 3; }} {mk}\n  int d() {{\n    return 4;\n  }}\n}}\n", ["a", "c"]))
    out.append(_tpl("Python", "def a(x): return x  # nocl\ndef b(y):\n    return y\n", ["a"]))
    out.append(_tpl("Python", "def a(x): return x\ndef b(y): return y  # nocl\ndef c(z):\n    return z\n", ["b"]))
    # a form feed / vertical tab is NOT a line break to the tool (lines are \n-delimited): name and marker stay on one line
    out.append(_tpl("Python", "def a(x): return x \x0c# nocl\ndef b(y):\n    return y\n", ["a"]))
    out.append(_tpl("C", "int a(void) { return 1; } \x0c// nocl\nint b(void) {\n  return 3;\n}\n", ["a"]))
    return out


def run_template(t):
    lang, text, marked = t["lang"], t["text"], set(t["marked"])
    for tool in (tool_scan_file, tool_scan_path):
        neutral = text.replace("nocl", "nocx").replace("NOCL", "NOCX")
        r = call_sut(tool, lang, neutral)
        if r[0] == "exc":
            return (f"{lang}:{r[1]}", r[2])
        base = r[1]
        r = call_sut(tool, lang, text)
        if r[0] == "exc":
            return (f"{lang}:{r[1]}", r[2])
        got = r[1]
        if not marked <= {m[0] for m in base}:
            return None  # the neutral program is not analysed as written (C01's subject)
        want = [m for m in base if m[0] not in marked]
        if got != want:
            still = [g[0] for g in got if g[0] in marked]
            kind = "marked-not-suppressed" if still else "unmarked-suppressed" if len(got) < len(want) else "neighbour-changed"
            return (f"{lang}:template:{kind}", f"marked {sorted(marked)}: result {got}\nexpected (neutral minus marked) {want}\n--- program:\n{text}")
    return None


def templates(col):
    for c in template_cases():
        col.eval(c, nontrivial=True, labels=["template:shared-lines-and-adjacent-one-liners", f"lang:{c['template']['lang']}"])


def run_case(case):
    if "template" in case:
        return run_template(case["template"])
    ast = case["ast"]
    lang = ast["lang"]
    rd_m, rd_n, marked_idx = analyse(ast)
    if len(rd_m.text) != len(rd_n.text):
        raise AssertionError("harness: marked and neutral renderings differ in length")
    tool = tool_scan_path if case.get("via") == "path" else tool_scan_file  # 'path': a file on disk through scan_path
    r = call_sut(tool, lang, rd_n.text)
    if r[0] == "exc":
        return (f"{lang}:{r[1]}", r[2])
    base = r[1]
    r = call_sut(tool, lang, rd_m.text)
    if r[0] == "exc":
        return (f"{lang}:{r[1]}", r[2])
    got = r[1]
    # which base results belong to the marked functions: identify by span start recorded by the renderer
    starts = set()
    for i in marked_idx:
        f = rd_n.funcs[i]
        starts.add(P._linecol(rd_n.text, f["start"]))
        if f.get("qual"):
            starts.add(P._linecol(rd_n.text, f["qual"][0]))
    want = [m for m in base if (m[1], m[2]) not in starts]
    removed = len(base) - len(want)
    if removed != len(marked_idx):
        # the neutral program itself is not analysed as the grammar says (C01's subject); do not judge C17 on it
        return None if case.get("lenient") else ("base-mismatch", f"{lang}: neutral program: expected to find {len(marked_idx)} marked functions among the results, found {removed}\n{rd_n.text}")
    if got == want:
        return None
    # The second sentence of the statement only speaks about functions that neither enclose nor are nested in another
    # function. Whether that holds is decided on what the TOOL reports for the neutral program (a body-less signature may
    # legitimately be reported with a span that swallows its neighbours): if a marked function's span is entangled with
    # another reported span, only the first sentence (who is omitted) is checked.
    def span(m):
        return ((m[1], m[2]), (m[3], m[4]))

    marked_spans = [span(m) for m in base if (m[1], m[2]) in starts]
    entangled = any(
        (a[0] <= b[0] and b[1] <= a[1]) or (b[0] <= a[0] and a[1] <= b[1])
        for a in marked_spans for m in base if (b := span(m)) != a
    )
    if entangled and [g[:3] for g in got] == [w[:3] for w in want]:
        return None
    gs, ws = set(got), set(want)
    if [g for g in got if g in ws] == want and len(got) > len(want):
        extra = [g for g in got if g not in ws]
        kind = "marked-not-suppressed" if all((e[1], e[2]) in starts for e in extra) else "new-entry-appeared"
        return (f"{lang}:{kind}", f"still reported / new: {extra}\n--- marked program:\n{rd_m.text}")
    if all(g in ws for g in got) and len(got) < len(want):
        lost = [w for w in want if w not in gs]
        return (f"{lang}:unmarked-suppressed", f"unmarked functions missing: {lost}\n--- marked program:\n{rd_m.text}")
    return (f"{lang}:neighbour-changed", f"marked result {got}\nexpected (neutral minus marked) {want}\n--- marked program:\n{rd_m.text}")


def shrink_candidates(case):
    if "template" in case:
        return
    ast = case["ast"]
    for a in P.shrink_ast(ast):
        yield dict(case, ast=a)
    # drop individual markers / decoys
    for key in ("name_tc", "pre_c", "above_c", "kw_tc"):
        a = copy.deepcopy(ast)
        changed = False
        for f in all_functions(a):
            if isinstance(f.get(key), dict) and not f.get("marked"):
                f[key] = None
                changed = True
                break
        if changed:
            yield dict(case, ast=a)


def gen(col, seed, n, lang, sizes):
    strat = st.tuples(st.randoms(use_true_random=False), st.sampled_from(sizes))

    def body(v):
        rnd, size = v
        ast = P.gen_program(rnd, lang, size)
        uniform = rnd.choice([None] * 6 + ["NOCL", "NoCl", "Nocl"])
        via = "path" if uniform or rnd.random() < 0.15 else "string"
        marked, labels = decorate(ast, rnd, uniform)
        labels.add(f"via:{via}")
        nfun = len(all_functions(ast))
        ndecoy = sum(1 for f in all_functions(ast) if f.get("decoy"))
        nt = (len(marked) >= 1 and nfun > len(marked)) or ndecoy >= 1
        labels = sorted(labels) + [f"lang:{lang}", f"marked:{min(len(marked), 3)}"]
        text = P.render(ast, "marked").text
        col.eval({"ast": ast, "via": via}, nontrivial=nt, labels=labels, distinct_key=lang + text)
        col.samples = [s if not (isinstance(s, dict) and "ast" in s) else {"lang": s["ast"]["lang"], "marked_program": P.render(s["ast"], "marked").text[:1500]} for s in col.samples]

    run_given(body, strat, seed, n)


def plan(tier, seed):
    quick = tier == "quick"
    sizes = [10, 20, 35] if quick else [10, 20, 35, 60]
    per_lang = 480 if quick else 6000
    jobs = []
    for lang in P.LANGS:
        for k in range(2 if quick else 4):
            jobs.append(("gen", {"seed": shard_seed(seed, ID, f"{lang}{k}"), "n": per_lang // (2 if quick else 4), "lang": lang, "sizes": sizes}))
    jobs.append(("templates", {}))
    return jobs
