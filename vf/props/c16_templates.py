"""Texts with every comment kind of each language, incl. those Pygments types as bare Token.Comment ('#if 0' regions,
'<!--') and preprocessor continuations."""

# identifiers that are not in Unicode normal form C (letter + combining mark, ANGSTROM SIGN, OHM SIGN) and tokens that span
# lines without being whitespace, comments or strings (a C# attribute list is one Name.Attribute token to Pygments)
EVERY_LANGUAGE = [
    'x = "' + "a" * 66000 + '"; tail = 2; more = 3;\ny = 3;\n',  # one line of 66 000 characters: columns beyond 65 535
    "a = 0\n" + ("abcdefghij" * 30 + " ") * 233 + "; c = 1\nlast = 1\n",  # 70 000 characters in 233 long names
    "cafe\u0301 = 1\nx = cafe\u0301 + 2\n",
    "int \u212bngstrom = 1; // \u2126\nint \u2126hm = \u212bngstrom;\n",
    "e\u0301\u0302(a\u030a) { n\u0303 }\n",
]

TEMPLATES = {
    "c": [
        "#if 0\nint dead(void) {\n}\n#endif\nint live;\n",
        "#if 0\nx\n#else\ny\n#endif",
        "#include <a.h>\n#define F(x) \\\n  (x)\nint a;",
        "/* a\n b */ int x; // c\n",
    ],
    "cpp": [
        "#if 0\nint dead() {\n}\n#endif\nint live;\n",
        "// a\n/* b */ auto x = R\"(raw\nstring)\";\n",
    ],
    "csharp": [
        "class A {\n  [DllImport(\"x\",\n     CharSet = CharSet.Auto)]\n  static extern void F(int a);\n  [Obsolete]\n  void G() { }\n}\n",
        "[assembly: Foo(1,\n  2,\n  3)]\nclass B { int x; }\n",
        "#region R\nint x; // c\n#endregion\n/// <summary>doc</summary>\nclass A { }\n",
        "#if DEBUG\nint d;\n#endif\n",
    ],
    "java": [
        "/** doc\n * more */\nclass A { // c\n}\n",
        "/* a */ int x; /* b\n c */\n",
    ],
    "javascript": [
        "<!-- html comment\nvar x = 1; // c\n--> end\n",
        "#!/usr/bin/env node\n/* a */ x = `t\n${y}`; // c\n",
    ],
    "typescript": [
        "<!-- html comment\nlet x: number = 1; // c\n",
        "/** doc */\nfunction f(): void { /* b */ }\n",
    ],
    "python": [
        "#!/usr/bin/python\n# -*- coding: utf-8 -*-\nx = 1  # c\n'''doc\nstring'''\n",
        "def f():\n    '''d'''  # c\n",
    ],
}
