"""C11 - exactly the non-hidden, non-excluded files of supported languages are analysed.

Domain : directory trees over a pool of names (hidden, built-in-excluded such as tests / build / node_modules / venv,
         ordinary, nested to depth 6) x file names with supported, unsupported and no extension x exclusion lists from
         the five unambiguous gitignore classes (name, dir/, *.ext, a/b, a/*) supplied by option, .codelimit.yml,
         root .gitignore or a mix x root spelled absolutely, relatively, or with '..' segments.
Oracle : reference matcher (vf/ref/gitignore.py) + hidden rule + extension table => expected key set, language per
         key and md5 of the bytes; scan_path(root).files must equal it exactly, and a wrapper around
         Scanner._analyze_file must have seen exactly those paths, once each.
"""
from __future__ import annotations

import hashlib
import os
from pathlib import Path

from hypothesis import strategies as st

from vf.common import call_sut, run_given, shard_seed
from vf.harness import cli, tree
from vf.harness.probe import AnalysisProbe
from vf.ref import gitignore as G

ID = "C11"
LEVEL = "exploration"
RULE = (
    "Hypothesis: tree (3..25 files over the name pool) x exclusion lists (0..4 patterns per source: option / "
    ".codelimit.yml / .gitignore; the latter with comment lines / without final newline) x root spelling; contents include CRLF, lone CR and "
    "non-UTF-8 bytes; each tree is written to disk and scanned once. Non-trivial = the tree "
    "holds a hidden file or directory, a file excluded by a configured pattern, and a qualifying file at depth >= 3; "
    "distinct by digest of (tree, exclusions, root spelling)"
)
ASSUMPTIONS = [
    "only the five pattern classes whose gitignore semantics are unambiguous are generated (no negation, '**', classes, escapes)",
    "extensions are restricted to ones whose Pygments mapping is unique (.h is avoided); whole-name patterns of other lexers (Makefile.*, Kconfig*, BUILD.bazel) are in the name pool and in the reference table, which is cross-checked against Pygments at run time",
    "exclusions given 'by option' are placed in Configuration.exclude and the config file is loaded with Configuration.load(root), as codelimit.__main__.scan does",
    "the built-in exclusion list is read statically from the literal assigned to DEFAULT_EXCLUDES in Scanner.py (the property does not enumerate it); the transcription in vf/ref/gitignore.py is the fallback",
]
FLOOR = {"quick": 200, "thorough": 4000}

DIRS = ["src", "lib", "app", "core", "docs", "a", "b", "pkg", "gen", "util", "tests", "test", "build", "dist", "node_modules", "venv", "_build",
        ".git", ".hidden", ".cache", ".storybook", ".husky", ".a", "Tests", "builder", "a.b"]
ORDINARY = ["src", "lib", "app", "core", "docs", "a", "b", "pkg", "gen", "util", "Tests", "builder", "a.b"]
STEMS = ["main", "util", "index", "mod", "x", "a", "setup", "gen", "test", "build", ".secret", ".env", "dist", "main", "util", "Makefile", "Kconfig"]
EXTS = list(G.LANGUAGE_OF_EXT) + G.UNSUPPORTED_EXT
# whole file names Pygments maps without an extension (build files are Python to Pygments) and well-known unsupported ones
WHOLE_NAMES = ["BUILD", "WORKSPACE", "SConstruct", "SConscript", "BUCK", "README", "LICENSE", "Dockerfile", "Gemfile", "CMakeLists.txt", "BUILD.bazel", "MODULE.bazel",
               "Makefile"]
# file contents: text (written as UTF-8) or {"hex": ...} for bytes that are not UTF-8 text with LF line ends
CONTENTS = ["x = 1\n", "def f(a):\n    return a\n", "int f(int a) {\n  return a;\n}\n", "", "function g() {\n}\n", "café\n",
            {"hex": b"def f(a):\r\n    return a\r\n".hex()}, {"hex": b"int f(int a) {\r  return a;\r}\r".hex()}, {"hex": b"x = 'caf\xe9'\n".hex()},
            {"hex": b"function g() {\r\n  return '\xff\xfe';\r\n}\r\n".hex()}]


def content_bytes(c) -> bytes:
    return bytes.fromhex(c["hex"]) if isinstance(c, dict) else c.encode("utf-8")



@st.composite
def trees(draw):
    n = draw(st.integers(6, 25))
    files = {}
    dirs = set()
    for _ in range(n):
        depth = draw(st.sampled_from([0, 1, 2, 3, 3, 3, 4, 4, 6]))
        pool = ORDINARY if draw(st.booleans()) else DIRS
        parts = [draw(st.sampled_from(pool)) for _ in range(depth)]
        stem = draw(st.sampled_from(STEMS))
        ext = draw(st.sampled_from(EXTS + ["py", "js", "c", "java"]))
        name = f"{stem}.{ext}" if ext else stem
        if draw(st.integers(0, 9)) == 0:
            name = draw(st.sampled_from(WHOLE_NAMES))
        path = "/".join(parts + [name])
        if path in files or path in dirs or any("/".join(parts[:k]) in files for k in range(1, len(parts) + 1)):
            continue
        if path in (".gitignore", ".codelimit.yml") or path.startswith(".codelimit_cache"):
            continue
        for k in range(1, len(parts) + 1):
            dirs.add("/".join(parts[:k]))
        files[path] = draw(st.sampled_from(CONTENTS))
    return files, sorted(dirs)


@st.composite
def patterns(draw, files, dirs):
    pool_names = sorted({p.split("/")[-1] for p in files} | {d.split("/")[-1] for d in dirs} | {"gen", "docs", "main.py"})
    pool_dirs = sorted({d.split("/")[-1] for d in dirs} | {"gen", "docs"})
    anchored = sorted({p for p in list(files) + dirs if "/" in p}) or ["src/gen"]
    top = sorted({d for d in dirs if "/" not in d} | {"src"})
    deep = sorted({d for d in dirs}) or ["src"]
    out = []
    for _ in range(draw(st.integers(1, 4))):
        kind = draw(st.sampled_from(["name", "dir", "ext", "anchored", "dirstar"]))
        if kind == "name":
            out.append(draw(st.sampled_from(pool_names)))
        elif kind == "dir":
            out.append(draw(st.sampled_from(pool_dirs)) + "/")
        elif kind == "ext":
            out.append("*." + draw(st.sampled_from(["py", "js", "c", "txt", "java", "ts", "md", "cpp"])))
        elif kind == "anchored":
            out.append(draw(st.sampled_from(anchored)))
        else:
            out.append(draw(st.sampled_from(deep if draw(st.booleans()) else top)) + "/*")
    return [p for p in out if not p.startswith(".") or True]


@st.composite
def cases(draw):
    files, dirs = draw(trees())
    opt = draw(patterns(files, dirs)) if draw(st.integers(0, 2)) else []
    yml = draw(patterns(files, dirs)) if draw(st.integers(0, 2)) else None
    gi = draw(patterns(files, dirs)) if draw(st.integers(0, 2)) else None
    spelling = draw(st.sampled_from(["absolute", "relative", "dot", "dotdot", "sub-dotdot", "absolute-dotdot"]))
    gi_style = draw(st.sampled_from(["plain", "plain", "no-final-newline", "comments", "comments-no-final-newline"]))
    return {"files": files, "option": opt, "yml": yml, "gitignore": gi, "gitignore_style": gi_style, "root": spelling}


def expected(case):
    pats = list(case["option"]) + list(case["yml"] or []) + list(case["gitignore"] or [])
    out = {}
    for rel, content in case["files"].items():
        if G.qualifies(rel, pats):
            out[rel] = (G.language_of(rel), hashlib.md5(content_bytes(content)).hexdigest())
    return out


def _gitignore_text(pats, style):
    """The same patterns as a user may write them: with comment and blank lines, with or without a final newline."""
    lines = list(pats)
    if style.startswith("comments"):
        lines = ["# build output", ""] + [x for p in pats for x in (p, "")] + ["# end"][: 0 if style.endswith("no-final-newline") else 1]
        while lines and lines[-1] == "" and style.endswith("no-final-newline"):
            lines.pop()
    text = "\n".join(lines)
    return text if style.endswith("no-final-newline") or not lines else text + "\n"


def selftest_names():
    """The reference's name -> language table against Pygments, for every file name the generator can produce."""
    from pygments.lexers import get_lexer_for_filename
    from pygments.util import ClassNotFound

    supported = set(G.LANGUAGE_OF_EXT.values())
    n = 0
    for name in sorted({f"{s}.{e}" if e else s for s in STEMS for e in EXTS + ["py", "js", "c", "java"]} | set(WHOLE_NAMES)):
        try:
            lx = get_lexer_for_filename(name).name
        except ClassNotFound:
            lx = None
        want = lx if lx in supported else None
        if G.language_of(name) != want:
            raise AssertionError(f"reference name table disagrees with Pygments on {name!r}: {G.language_of(name)} vs {want}")
        n += 1
    return n


def _yaml_list(pats):
    import json

    return "exclude:\n" + "".join(f"  - {json.dumps(p)}\n" for p in pats) if pats else "verbose: false\n"


PROBE = {"usable": 0, "unusable": 0}  # per process: was the analysed-set observation connected to the scan?


def run_case(case):
    from codelimit.common import Scanner
    from codelimit.common.Configuration import Configuration

    want = expected(case)
    files = {k: content_bytes(v) for k, v in case["files"].items()}
    if case["yml"] is not None:
        files[".codelimit.yml"] = _yaml_list(case["yml"])
    if case["gitignore"] is not None:
        files[".gitignore"] = _gitignore_text(case["gitignore"], case.get("gitignore_style", "plain"))
    with tree.temp_tree(files) as root:
        (root / "zz_anchor").mkdir(exist_ok=True)  # an (empty) directory to spell 'root/zz_anchor/..'
        spelling = case["root"]
        cwd, arg = {
            "absolute": (root.parent, str(root)),
            "relative": (root.parent, "root"),
            "dot": (root, "."),
            "dotdot": (root.parent, "root/../root"),
            "sub-dotdot": (root.parent, "root/zz_anchor/.."),
            "absolute-dotdot": (root.parent, str(root / "zz_anchor" / "..")),
        }[spelling]
        def go():
            cli.reset_config()
            cli.add_excludes(case["option"])
            Configuration.load(Path(arg))
            return Scanner.scan_path(Path(arg))

        old = os.getcwd()
        os.chdir(cwd)
        probe = AnalysisProbe(root, case["files"])
        try:
            with probe:
                r = call_sut(go)
        finally:
            os.chdir(old)
            cli.reset_config()
        seen = probe.seen
        if r[0] == "exc":
            return (f"scan_path:{r[1]}", r[2])
        cb = r[1]
        got = {k: (e.language, e.checksum()) for k, e in cb.files.items()}
    desc = f"root spelling {spelling}; option {case['option']} yml {case['yml']} gitignore {case['gitignore']}"
    if set(got) != set(want):
        missing = sorted(set(want) - set(got))
        extra = sorted(set(got) - set(want))
        kind = "not-analysed" if missing and not extra else "wrongly-analysed" if extra and not missing else "key-set"
        why = ""
        if extra:
            e = extra[0]
            why = " (hidden)" if G.hidden(e) else " (unsupported)" if G.language_of(e) is None else " (excluded)"
            kind += ":" + why.strip(" ()")
        return (f"{kind}", f"missing {missing} extra {extra}{why}; {desc}; tree {sorted(case['files'])}")
    for k in want:
        if got[k] != want[k]:
            return ("entry-language-or-checksum", f"{k}: {got[k]} != {want[k]}; {desc}")
        if cb.files[k].path != k:
            return ("entry-path", f"{k}: entry.path {cb.files[k].path!r}")
    PROBE["usable" if probe.usable(len(got)) else "unusable"] += 1
    if probe.usable(len(got)) and sorted(seen) != sorted(want):
        return ("analysed-set", f"_analyze_file saw {sorted(seen)}, expected exactly {sorted(want)}; {desc}")
    return None


def shrink_candidates(case):
    files = case["files"]
    for k in sorted(files):
        f2 = dict(files)
        del f2[k]
        if f2:
            yield dict(case, files=f2)
    for key in ("option", "yml", "gitignore"):
        lst = case[key]
        if lst:
            for i in range(len(lst)):
                yield dict(case, **{key: lst[:i] + lst[i + 1 :]})
        if key != "option" and lst is not None and not lst:
            yield dict(case, **{key: None})
    if case["root"] != "absolute":
        yield dict(case, root="absolute")


def selftest_reference(n=400):
    """The reference matcher is cross-checked against the pathspec library on generated (pattern, path) pairs before it
    is trusted (harness error if they disagree)."""
    import random

    from pathspec import PathSpec

    rnd = random.Random(7)
    names = ["a", "b", "src", "gen", "docs", "main.py", "x.js", "util", "a.b", "Tests", "test"]
    checked = 0
    for _ in range(n):
        parts = [rnd.choice(names) for _ in range(rnd.randint(1, 4))]
        path = "/".join(parts)
        k = rnd.choice(["name", "dir", "ext", "anchored", "dirstar"])
        if k == "name":
            pat = rnd.choice(names)
        elif k == "dir":
            pat = rnd.choice(names) + "/"
        elif k == "ext":
            pat = "*." + rnd.choice(["py", "js", "b"])
        elif k == "anchored":
            pat = "/".join(rnd.choice(names) for _ in range(rnd.randint(2, 3)))
        else:
            pat = "/".join(rnd.choice(names) for _ in range(rnd.randint(1, 2))) + "/*"
        a = G.excluded(path, [pat])
        b = PathSpec.from_lines("gitignore", [pat]).match_file(path)
        if a != b:
            raise AssertionError(f"reference gitignore semantics disagree with pathspec: pattern {pat!r} path {path!r}: {a} vs {b}")
        checked += 1
    return checked


def gen(col, seed, n, selftest=False):
    if selftest:
        col.notes["reference_crosschecked_against_pathspec_pairs"] = selftest_reference()
        col.notes["reference_name_table_crosschecked_against_pygments"] = selftest_names()

    def body(case):
        pats = list(case["option"]) + list(case["yml"] or []) + list(case["gitignore"] or [])
        files = case["files"]
        has_hidden = any(G.hidden(p) for p in files)
        cfg_excluded = any(G.language_of(p) and not G.hidden(p) and not G.excluded(p, G.DEFAULT_EXCLUDES) and G.excluded(p, pats) for p in files)
        deep = any(p.count("/") >= 3 for p in expected(case))
        labels = [f"root:{case['root']}"]
        for key in ("option", "yml", "gitignore"):
            if case[key]:
                labels.append(f"source:{key}")
        for p in pats:
            labels.append(f"pattern:{G.classify(p)}")
        if any(G.excluded(p, G.DEFAULT_EXCLUDES) and not G.hidden(p) for p in files):
            labels.append("builtin-excluded-present")
        if has_hidden:
            labels.append("hidden-present")
        if any(isinstance(c, dict) for p, c in files.items() if G.qualifies(p, pats)):
            labels.append("qualifying-file-not-utf8-lf")
        if case["gitignore"]:
            labels.append(f"gitignore-style:{case.get('gitignore_style', 'plain')}")
        if any(p.split("/")[-1].startswith(G.CLAIMED_STEMS) for p in files):
            labels.append("name-claimed-by-another-lexer-present")
        before = PROBE["unusable"]
        col.eval(case, nontrivial=has_hidden and cfg_excluded and deep, labels=labels)
        col.label("analysed-set-observed" if PROBE["unusable"] == before else "analysed-set-observation-unavailable")
        col.samples = [s if not (isinstance(s, dict) and "files" in s and isinstance(s["files"], dict)) else dict(s, files=sorted(s["files"])) for s in col.samples]

    run_given(body, cases(), seed, n)


def plan(tier, seed):
    total = 3200 if tier == "quick" else 48000
    return [("gen", {"seed": shard_seed(seed, ID, i), "n": total // 16, "selftest": i == 0}) for i in range(16)]
