"""C14 - search (find_all) returns sound, ordered, disjoint, longest and complete matches.

Part A : all non-nullable pattern trees (C13 grammar) up to a size bound x all sequences over {a,b,c} up to a length
         bound, exhaustively; Hypothesis beyond.
Part B : the header expressions actually shipped by the language modules (captured by wrapping
         scope_utils.find_all while calling language.extract_headers) over all token sequences up to a length bound
         over {identifier, keywords, '(', ')', '{', '=', '=>', other, string "("}.
Oracle : g(i) = reference greedy end from i (vf/ref/regex.py for A, a direct depth-counting scanner for B).
         Every reported match is (i, g(i)) for a succeeding i, carries tokens == s[i:g(i)], lies in bounds; matches are
         in increasing order and disjoint (also at the end of input); every succeeding i is covered by a reported match.
"""
from __future__ import annotations

from itertools import product

from hypothesis import strategies as st

from vf.common import call_sut, run_given, shard_seed
from vf.gen import patterns as P
from vf.ref import regex as R

ID = "C14"
LEVEL = "exploration"
RULE = (
    "A: non-nullable pattern trees with <= 4 nodes (thorough 5) x all sequences over {a,b,c} of length <= 6 (thorough 8); "
    "B: each distinct shipped header expression x all token-class sequences of length <= 6 (thorough 8; arrow shape 5/7); "
    "C: Hypothesis trees x sequences to length 24. Non-trivial = at least two candidate starts still alive at the end "
    "of input, or at least two reported/expected matches, or overlapping successful attempts; distinct by (pattern, sequence)"
)
ASSUMPTIONS = [
    "greedy = run while a transition exists, accept only if stopped in an accepting state (the engine's documented behaviour), computed by the reference",
    "automaton construction is memoised per expression inside find_all (matcher.expression_to_nfa / nfa_to_dfa)",
    "a parenthesis is a punctuation token; a string literal whose text is '(' is not",
    "part A supplies atoms as plain items / fresh equal predicate objects / one object per letter and shares identical sub-patterns as one operator object, as C13 does",
]
EXHAUSTIVE = {
    "quick": "A: trees <= 4 nodes x sequences <= 6; B: shipped header shapes x token sequences <= 6 (arrow 5)",
    "thorough": "A: trees <= 5 nodes x sequences <= 8; B: shipped header shapes x token sequences <= 8 (arrow 7)",
}
FLOOR = {"quick": 20000, "thorough": 200000}


def _matcher():
    from codelimit.common.gsm import matcher

    return matcher


def expected_matches(succ_end, n):
    """Leftmost selection implied by the statement: the smallest succeeding start must be covered, and only its own
    greedy match can cover it; then continue after its end."""
    out = []
    i = 0
    while i < n:
        e = succ_end(i)
        if e is not None:
            out.append((i, e))
            i = e
        else:
            i += 1
    return out


def check_find_all(found, seq, succ_end, describe):
    """found: list of Pattern-like objects (start, end, tokens)."""
    n = len(seq)
    spans = []
    for m in found:
        s, e = m.start, m.end
        if not (isinstance(s, int) and isinstance(e, int)) or not (0 <= s < e <= n):
            return ("out-of-bounds", describe(f"match ({s},{e}) outside 0..{n} or empty"))
        g = succ_end(s)
        if g is None:
            return ("unsound-start", describe(f"match ({s},{e}) reported but greedy matching from {s} does not succeed"))
        if g != e:
            return ("not-longest" if e < g else "too-long", describe(f"match ({s},{e}) reported, greedy end from {s} is {g}"))
        if list(m.tokens) != list(seq[s:e]):
            return ("wrong-tokens", describe(f"match ({s},{e}) carries tokens {list(m.tokens)!r}, expected {list(seq[s:e])!r}"))
        spans.append((s, e))
    for (s1, e1), (s2, e2) in zip(spans, spans[1:]):
        if s2 < s1:
            return ("unordered", describe(f"matches {spans} not in position order"))
        if s2 < e1:
            return ("overlap", describe(f"matches {spans} overlap"))
    for i in range(n):
        if succ_end(i) is not None and not any(s <= i < e for s, e in spans):
            return ("incomplete", describe(f"greedy matching succeeds from {i} (end {succ_end(i)}) but no reported match covers it; reported {spans}"))
    return None


# --------------------------------------------------------------------------- part A: abstract trees


def check_tree_seq(tree, expr, seq, m):
    seq = list(seq)
    cache = {}

    def succ_end(i):
        if i not in cache:
            cache[i] = R.greedy_end(tree, seq, i)
        return cache[i]

    r = call_sut(m.find_all, expr, seq)
    if r[0] == "exc":
        return (f"find_all:{r[1]}", f"pattern {P.show(tree)} sequence {''.join(seq)!r}: {r[2]}")
    return check_find_all(r[1], seq, succ_end, lambda w: f"pattern {P.show(tree)} sequence {''.join(seq)!r}: {w}")


def nontrivial_a(tree, seq):
    ends = [R.greedy_end(tree, seq, i) for i in range(len(seq))]
    succ = [(i, e) for i, e in enumerate(ends) if e is not None]
    alive_at_end = sum(1 for i, e in succ if e == len(seq))
    overlapping = any(s2 < e1 for (s1, e1), (s2, e2) in zip(succ, succ[1:]))
    return alive_at_end >= 2 or len(expected_matches(lambda i: ends[i], len(seq))) >= 2 or overlapping


def enum_a(col, max_size, max_len, part, nparts):
    from vf.props.c13 import BuildMemo

    m = _matcher()
    seqs = list(P.sequences(P.ATOMS, max_len))
    idx = 0
    for size in range(1, max_size + 1):
        for tree in P.trees_of_size(size):
            if R.nullable(R.norm(tree)):
                continue
            idx += 1
            if idx % nparts != part:
                continue
            mode = P.MODES[(idx // nparts) % len(P.MODES)]
            expr = P.to_expr(tree, *mode)
            col.label(f"A:atoms:{mode[0]}")
            n = nt = 0
            with BuildMemo():
                for s in seqs:
                    n += 1
                    is_nt = nontrivial_a(tree, s)
                    nt += is_nt
                    res = check_tree_seq(tree, expr, s, m)
                    if res:
                        col.fail({"kind": "tree", "tree": P.to_json(tree), "seq": "".join(s), "mode": list(mode)}, res[0], res[1])
                    elif is_nt and n % 1511 == 0:
                        col.sample({"pattern": P.show(tree), "seq": "".join(s)}, force=len(col.samples) < 3)
            col.bulk(n, nt)
            col.label("A:trees")


def enum_family(col, part, nparts, max_len):
    """find_all over the nullable-repetition family (non-nullable members only)."""
    from vf.props.c13 import BuildMemo

    m = _matcher()
    seqs = list(P.sequences(P.ATOMS, max_len))
    fam = [(t, None) for t in P.nullable_repetition_family()] + [(t, (a, True)) for t in P.shared_family() for a in ("plain", "fresh", "one")]
    fam = [(t, md) for t, md in fam if not R.nullable(R.norm(t))]
    for i, (tree, mode) in enumerate(fam):
        if i % nparts != part:
            continue
        if mode is None:
            mode = P.MODES[(i // nparts) % len(P.MODES)]
        else:
            col.label("A:shared-operator-family")
        expr = P.to_expr(tree, *mode)
        n = nt = 0
        with BuildMemo():
            for s in seqs:
                n += 1
                is_nt = nontrivial_a(tree, s)
                nt += is_nt
                res = check_tree_seq(tree, expr, s, m)
                if res:
                    col.fail({"kind": "tree", "tree": P.to_json(tree), "seq": "".join(s), "mode": list(mode)}, res[0], res[1])
                    break
        col.bulk(n, nt)
    col.label("A:nullable-repetition-family")


def gen_a(col, seed, n):
    strat = st.tuples(P.tree_strategy(7), st.text(alphabet="abc", max_size=24), st.sampled_from(P.MODES)).filter(lambda v: not R.nullable(R.norm(v[0])))

    def body(v):
        tree, seq, mode = v
        col.eval({"kind": "tree", "tree": P.to_json(tree), "seq": seq, "mode": list(mode)}, nontrivial=nontrivial_a(tree, seq), labels=["C:random"])

    run_given(body, strat, seed, n)


# --------------------------------------------------------------------------- part B: shipped header shapes

# token classes: name -> (value, pygments type path)
CLASSES = {
    "id": ("x", "Name"),
    "def": ("def", "Keyword"),
    "function": ("function", "Keyword"),
    "const": ("const", "Keyword"),
    "async": ("async", "Keyword"),
    "kw": ("return", "Keyword"),
    "(": ("(", "Punctuation"),
    ")": (")", "Punctuation"),
    "{": ("{", "Punctuation"),
    "=": ("=", "Operator"),
    "=>": ("=>", "Punctuation"),
    ";": (";", "Punctuation"),
    's"("': ('"("', "Literal.String"),
    "s(": ("(", "Literal.String"),
}

SHAPES = {
    # shape id -> (spec, alphabet quick, alphabet thorough)
    "name_groups": (("name", "groups"), ["id", "kw", "(", ")", "{", ";"], ["id", "kw", "(", ")", "{", ";", "s("]),
    "def_name_groups": (("kw:def", "name", "groups"), ["id", "def", "(", ")", "{", ";"], ["id", "def", "kw", "(", ")", ";", "s("]),
    "function_name_groups": (("opt:function", "name", "groups"), ["id", "function", "(", ")", "{", ";"], ["id", "function", "kw", "(", ")", "{", "s("]),
    "arrow": (
        ("opt:const", "name", "op:=", "opt:async", "groups", "sym:=>"),
        ["id", "const", "async", "=", "(", ")", "=>"],
        ["id", "const", "async", "=", "(", ")", "=>", ";"],
    ),
}


def make_tokens(names):
    import pygments.token as T

    from codelimit.common.Location import Location
    from codelimit.common.Token import Token

    out = []
    for k, nm in enumerate(names):
        value, tpath = CLASSES[nm]
        tt = T.Token
        for part in tpath.split("."):
            tt = getattr(tt, part)
        out.append(Token(Location(1, 1 + 3 * k), tt, value))
    return out


def _is(nm, what):
    value, tpath = CLASSES[nm]
    if what == "name":
        return tpath == "Name"
    if what.startswith("kw:") or what.startswith("opt:"):
        return tpath == "Keyword" and value == what.split(":", 1)[1]
    if what.startswith("op:"):
        return tpath == "Operator" and value == what[3:]
    if what.startswith("sym:"):
        return tpath == "Punctuation" and value == what[4:]
    raise ValueError(what)


def _open(nm):
    return CLASSES[nm] == ("(", "Punctuation")


def _close(nm):
    return CLASSES[nm] == (")", "Punctuation")


def shape_greedy_end(spec, names, i):
    """Direct scanner with an explicit depth counter: greedy end of the header shape from i, or None."""
    n = len(names)
    j = i
    k = 0
    while k < len(spec):
        el = spec[k]
        if el == "groups":
            break
        if el.startswith("opt:"):
            if j < n and _is(names[j], el):
                j += 1
        else:
            if j < n and _is(names[j], el):
                j += 1
            else:
                return None
        k += 1
    if j == i:
        return None
    # one or more balanced groups
    tail = spec[k + 1 :]
    if j >= n or not _open(names[j]):
        return None
    depth = 1
    j += 1
    while j < n:
        nm = names[j]
        if depth > 0:
            if _open(nm):
                depth += 1
            elif _close(nm):
                depth -= 1
            j += 1
            continue
        if _open(nm):
            depth = 1
            j += 1
            continue
        break
    if not tail:
        # accepting as soon as one token of a group has been consumed (also mid-group at the end of input)
        return j
    # a required trailing symbol (arrow): only reachable at depth 0
    if depth == 0 and j < n and _is(names[j], tail[0]):
        return j + 1
    return None


_CAPTURED = None


def captured_expressions():
    """{language: [(shape_id, expression)]} - the header expressions the language modules really pass to find_all."""
    global _CAPTURED
    if _CAPTURED is not None:
        return _CAPTURED
    import sys

    from codelimit.common.scope import scope_utils
    from codelimit.languages import Languages

    probe = {
        "name_groups": ["id", "(", ")"],
        "def_name_groups": ["def", "id", "(", ")"],
        "function_name_groups": ["function", "id", "(", ")"],
        "arrow": ["const", "id", "=", "async", "(", ")", "=>"],
    }
    out = {}
    # the header expression reaches the matcher through find_all or (with a follow-up pattern) find_candidates
    entry_points = [n for n in ("find_all", "find_candidates") if hasattr(scope_utils, n)]
    orig = {n: getattr(scope_utils, n) for n in entry_points}
    for lname, lang in sorted(Languages.by_name.items()):
        seen = []

        def rec(expression, tokens, _seen=seen):
            _seen.append(expression)
            return []

        for n in entry_points:
            setattr(scope_utils, n, rec)
        try:
            lang.extract_headers(make_tokens(["id", "(", ")", "{"]))
        finally:
            for n in entry_points:
                setattr(scope_utils, n, orig[n])
        out[lname] = seen
    _CAPTURED = out
    return out


def expected_shapes(lname):
    if lname == "Python":
        return ["def_name_groups"]
    if lname in ("JavaScript", "TypeScript"):
        return ["function_name_groups", "arrow"]
    return ["name_groups"]


def check_shape_seq(lname, shape, expr, names, m):
    spec = SHAPES[shape][0]
    toks = make_tokens(names)
    cache = {}

    def succ_end(i):
        if i not in cache:
            cache[i] = shape_greedy_end(spec, names, i)
        return cache[i]

    # the same expression objects first go through the other two entry points (as get_headers' follow-up test and any
    # caller may do): whatever those leave behind in the expression's predicates must not change what the search reports
    call_sut(m.match, expr, toks)
    call_sut(m.starts_with, expr, toks)
    r = call_sut(m.find_all, expr, toks)
    if r[0] == "exc":
        return (f"find_all:{r[1]}", f"{lname} {shape} tokens {' '.join(names)!r}: {r[2]}")
    res = check_find_all(r[1], toks, succ_end, lambda w: f"{lname} {shape} tokens {' '.join(names)!r}: {w}")
    if res:
        return (f"{shape}:{res[0]}", res[1])
    return None


def nontrivial_b(spec, names):
    ends = [shape_greedy_end(spec, names, i) for i in range(len(names))]
    succ = [(i, e) for i, e in enumerate(ends) if e is not None]
    return len(succ) >= 2


def enum_b(col, lname, k, shape, alphabet, max_len, first):
    from vf.props.c13 import BuildMemo

    m = _matcher()
    exprs = captured_expressions()[lname]
    if k >= len(exprs):
        col.fail({"kind": "shape", "language": lname, "index": k, "shape": shape, "names": []}, f"{shape}:missing-expression",
                 f"{lname}: extract_headers passed {len(exprs)} expression(s) to find_all, expected index {k} ({shape})")
        return
    expr = exprs[k]
    spec = SHAPES[shape][0]
    n = nt = 0
    with BuildMemo():
        for ln in range(0, max_len):
            for rest in product(alphabet, repeat=ln):
                names = [first] + list(rest)
                n += 1
                is_nt = nontrivial_b(spec, names)
                nt += is_nt
                res = check_shape_seq(lname, shape, expr, names, m)
                if res:
                    col.fail({"kind": "shape", "language": lname, "index": k, "shape": shape, "names": names}, res[0], res[1])
                elif is_nt and n % 4001 == 0:
                    col.sample({"language": lname, "shape": shape, "tokens": " ".join(names)}, force=len(col.samples) < 2)
    col.bulk(n, nt)
    col.label(f"B:{shape}")


def run_case(case):
    m = _matcher()
    if case.get("kind") == "shape":
        exprs = captured_expressions()[case["language"]]
        if case["index"] >= len(exprs):
            return (f"{case['shape']}:missing-expression", "expression not passed to find_all")
        return check_shape_seq(case["language"], case["shape"], exprs[case["index"]], case["names"], m)
    tree = P.from_json(case["tree"])
    return check_tree_seq(tree, P.to_expr(tree, *(case.get("mode") or ("plain", False))), list(case["seq"]), m)


def shrink_candidates(case):
    if case.get("kind") == "shape":
        names = case["names"]
        for i in range(len(names)):
            yield dict(case, names=names[:i] + names[i + 1 :])
        return
    seq = case["seq"]
    for i in range(len(seq)):
        yield dict(case, seq=seq[:i] + seq[i + 1 :])
    for sub in P.subtrees(P.from_json(case["tree"])):
        if not R.nullable(R.norm(sub)):
            yield dict(case, tree=P.to_json(sub))


def plan(tier, seed):
    quick = tier == "quick"
    jobs = []
    size, ln = (4, 6) if quick else (5, 8)
    nparts = 8 if quick else 32
    for p in range(nparts):
        jobs.append(("enum_a", {"max_size": size, "max_len": ln, "part": p, "nparts": nparts}))
    # part B: one job per (distinct expression, first token); languages sharing an identical header shape
    # (C, C++, C#, Java) are enumerated in full for one of them and to length-2 less for the others
    full_done = set()
    for lname in ["C", "C#", "C++", "Java", "JavaScript", "Python", "TypeScript"]:
        for k, shape in enumerate(expected_shapes(lname)):
            alpha = SHAPES[shape][1 if quick else 2]
            mlen = (6 if quick else 8) - (1 if shape == "arrow" else 0)
            if shape in full_done:
                mlen -= 2
            full_done.add(shape)
            for first in alpha:
                jobs.append(("enum_b", {"lname": lname, "k": k, "shape": shape, "alphabet": alpha, "max_len": mlen, "first": first}))
    for p in range(8):
        jobs.append(("enum_family", {"part": p, "nparts": 8, "max_len": 5 if quick else 6}))
    n = 2000 if quick else 40000
    for i in range(4):
        jobs.append(("gen_a", {"seed": shard_seed(seed, ID, i), "n": n // 4}))
    return jobs
