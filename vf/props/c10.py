"""C10 - a damaged or partial cache never breaks or taints the next scan.

Domain (fault enumeration): for several small trees, B = the cache bytes a scan wrote. Faults applied to the on-disk
         state before the next scan: truncation of codelimit.json at EVERY byte offset 0..len(B) (what an interrupted
         write_text leaves); structural faults - file missing, empty, whitespace, not JSON, binary garbage, every JSON
         scalar / array / object as the whole document, deletion of the member at every key path, replacement of the
         value at every key path by each wrong-typed value among null, 0, "s", [], {}, 1.5, true (also inside the stored profile lists); cache directory without the file or
         without its marker files; REAL interrupted scans (a forked scan whose file writes fail with EFBIG after N bytes,
         RLIMIT_FSIZE, for N across the cache length and below the marker files' sizes, with / without an existing
         cache directory) followed by two further scans; Hypothesis sequences of
         (fault, scan, edit, fault, scan ...).
Oracle : the scan completes (exit 0, no exception); the cache it leaves parses as JSON, is accepted by ReportReader and
         equals the from-scratch report of the same tree (uuid / timestamp dropped).
"""
from __future__ import annotations

import json
import os
import shutil
import tempfile
from pathlib import Path

from hypothesis import strategies as st

from vf.common import call_sut, digest, run_given, shard_seed
from vf.harness import cli, tree
from vf.props.c09 import first_diff, normalise

ID = "C10"
LEVEL = "fault_enumeration"
RULE = (
    "fault points: every byte offset at which the cache write can be cut short (exhaustive for each tree), every key "
    "path x {delete, wrong-typed replacement}, whole-document replacements, directory-level faults; each fault is "
    "followed by one scan on a real temp tree (every third scan in verbose mode; one tree holds byte-identical files of different languages; "
    "wrong-typed values include text that is markup to the console library). Hypothesis adds sequences of faults, edits and scans. Non-trivial = the "
    "faulted cache file exists, is non-empty and differs from the valid bytes; distinct = distinct (tree, fault) - "
    "enumerated once each, generated sequences de-duplicated by digest"
)
ASSUMPTIONS = [
    "an interrupted write is simulated by truncation: the cache is written with a single write_text, so a prefix is what a crash or full disk leaves",
    "replacement values are always of a different JSON type than the original (a right-typed wrong value under a matching checksum cannot be detected by any cache)",
    "restoration of CACHEDIR.TAG / .gitignore is not demanded: the statement asks for a complete, valid cache and names no marker",
]
EXHAUSTIVE = {"quick": "every truncation offset of 2 trees' caches + every key-path fault of 1 tree", "thorough": "every truncation offset and every key-path fault of 6 trees' caches (a 60-file tree: stratified offsets)"}
FLOOR = {"quick": 2000, "thorough": 15000}

TREES = {
    "t1": {"a.py": tree.flat_file("Python", [3, 31]), "src/b.js": tree.flat_file("JavaScript", [2, 61]), "src/deep/c.c": tree.flat_file("C", [4])},
    "t2": {"only.py": tree.flat_file("Python", [2])},
    "t3": {"m/x.java": tree.flat_file("Java", [16, 5]), "m/y.cs": tree.flat_file("C#", [3]), "n/z.ts": tree.flat_file("TypeScript", [33]), "q.cpp": tree.flat_file("C++", [1, 2])},
    "t4": {"empty.py": "", "broken.js": "function f(", "notes.txt": "hi"},
    "t5": {"d1/d2/d3/d4/deep.py": tree.flat_file("Python", [62]), "d1/top.py": tree.flat_file("Python", [15])},
    "t6": {"café.py": tree.flat_file("Python", [3]), "we ird/na\"me.js": tree.flat_file("JavaScript", [2])},
    # byte-identical files of two languages (and of one language): a missing entry must not be replaced by a look-alike
    "t7": {"lib.js": tree.flat_file("JavaScript", [3, 32]), "lib.ts": tree.flat_file("JavaScript", [3, 32]), "h.c": "int f(int a) {\n  return a;\n}\n", "h.cpp": "int f(int a) {\n  return a;\n}\n",
           "pkg/__init__.py": "", "pkg/sub/__init__.py": "", "copy/lib.js": tree.flat_file("JavaScript", [3, 32])},
}
BIG = {f"pkg{i % 6}/mod{i}.py": tree.flat_file("Python", [2 + i % 5, 3]) for i in range(60)}


class Session:
    """One temp tree; valid cache bytes B and the fresh (normalised) report F are computed once."""

    def __init__(self, files):
        self.base = tempfile.mkdtemp(prefix="vf-c10-")
        self.root = Path(self.base).resolve() / "root"
        self.root.mkdir()
        tree.write_files(self.root, files)
        self.cdir = self.root / ".codelimit_cache"
        self.cfile = self.cdir / "codelimit.json"
        self.refresh()

    def refresh(self):
        if self.cdir.exists():
            shutil.rmtree(self.cdir)
        res = cli.run_scan(self.root, ".")
        if res.exc or res.code != 0:
            raise RuntimeError(f"harness: the initial scan failed: {res}")
        self.B = self.cfile.read_bytes()
        self.F = normalise(json.loads(self.B.decode("utf-8")))

    def close(self):
        shutil.rmtree(self.base, ignore_errors=True)

    def reset_dir(self):
        """A complete cache directory with valid content."""
        if self.cfile.is_dir():
            shutil.rmtree(self.cfile)
        self.cdir.mkdir(exist_ok=True)
        (self.cdir / "CACHEDIR.TAG").write_text("Signature: 8a477f597d28d172789f06886806bc55")
        (self.cdir / ".gitignore").write_text("# Created by codelimit automatically.\n*\n")
        self.cfile.write_bytes(self.B)

    def apply_fault(self, fault):
        kind = fault[0]
        self.reset_dir()
        if kind == "truncate":
            self.cfile.write_bytes(self.B[: fault[1]])
        elif kind == "bytes":
            self.cfile.write_bytes(bytes.fromhex(fault[1]))
        elif kind == "doc":
            self.cfile.write_text(json.dumps(fault[1]))
        elif kind == "delete_key" or kind == "replace":
            doc = json.loads(self.B.decode("utf-8"))
            node = doc
            for k in fault[1][:-1]:
                node = node[k]
            last = fault[1][-1]
            if kind == "delete_key":
                del node[last]
            else:
                node[last] = fault[2]
            self.cfile.write_text(json.dumps(doc, indent=2))
        elif kind == "interrupt_write":
            self.interrupted_scan(fault[1], fault[2])
        elif kind == "no_file":
            self.cfile.unlink()
        elif kind == "no_markers":
            (self.cdir / "CACHEDIR.TAG").unlink()
            (self.cdir / ".gitignore").unlink()
            if len(fault) > 1:
                self.cfile.write_bytes(self.B[: fault[1]])
        elif kind == "no_tag":
            (self.cdir / "CACHEDIR.TAG").unlink()
        elif kind == "empty_dir":
            shutil.rmtree(self.cdir)
            self.cdir.mkdir()
        elif kind == "no_dir":
            shutil.rmtree(self.cdir)
        elif kind == "file_is_dir":
            self.cfile.unlink()
            self.cfile.mkdir()
        elif kind == "dir_is_file":
            shutil.rmtree(self.cdir)
            self.cdir.write_text("not a directory")
        else:
            raise ValueError(fault)

    def interrupted_scan(self, limit, fresh_dir):
        """A REAL interrupted scan: a forked child runs scan with RLIMIT_FSIZE = limit, so that its writes fail with EFBIG
        after `limit` bytes (whichever file it is writing), exactly as on a full disk; whatever it leaves stays on disk."""
        import resource
        import signal

        if fresh_dir and self.cdir.exists():
            shutil.rmtree(self.cdir)
        pid = os.fork()
        if pid == 0:
            try:
                signal.signal(signal.SIGXFSZ, signal.SIG_IGN)
                resource.setrlimit(resource.RLIMIT_FSIZE, (limit, limit))
                cli.run_scan(self.root, ".")
            finally:
                os._exit(0)
        os.waitpid(pid, 0)

    def scan_and_check(self, what):
        from codelimit.common.report.ReportReader import ReportReader

        self.nscans = getattr(self, "nscans", 0) + 1
        res = cli.run_scan(self.root, ".", verbose=self.nscans % 3 == 0)  # every third scan in verbose mode
        if res.exc:
            return (f"scan-fails:{res.exc[0]}", f"{what}: {res.exc[1][-1500:]}")
        if res.code != 0:
            return ("scan-exit-status", f"{what}: exit {res.code}")
        try:
            text = self.cfile.read_text()
            doc = json.loads(text)
        except Exception as e:  # noqa: BLE001
            return ("cache-left-invalid", f"{what}: the cache left behind does not parse: {type(e).__name__}: {e}")
        r = call_sut(ReportReader.from_json, text)
        if r[0] == "exc":
            return (f"cache-left-unreadable:{r[1]}", f"{what}: {r[2][-800:]}")
        try:
            got = normalise(doc)
        except (AttributeError, KeyError, TypeError) as e:
            return ("cache-left-wrong-shape", f"{what}: the cache left behind is JSON of the wrong shape ({type(e).__name__}: {e})")
        if got != self.F:
            return ("tainted-report", f"{what}: {first_diff(got, self.F)}")
        return None


def run_fault(session, fault):
    try:
        session.apply_fault(fault)
    except (KeyError, IndexError, TypeError):
        return None  # the key path does not exist in this tree's document
    bad = session.scan_and_check(f"fault {fault!r}"[:300])
    if fault[0] == "dir_is_file" and session.cdir.is_file():
        session.cdir.unlink()
    return bad


def key_paths(doc, prefix=()):
    out = []
    if isinstance(doc, dict):
        for k, v in doc.items():
            out.append((prefix + (k,), v))
            out.extend(key_paths(v, prefix + (k,)))
    elif isinstance(doc, list):
        for i, v in enumerate(doc):
            out.append((prefix + (i,), v))
            out.extend(key_paths(v, prefix + (i,)))
    return out


WRONG = [None, 0, "s", [], {}, 1.5, True, "[/]", ["[/x]"]]  # the last two: text that is markup to the console library


def _jtype(v):
    return "null" if v is None else "bool" if isinstance(v, bool) else "integer" if isinstance(v, int) else "float" if isinstance(v, float) else type(v).__name__


def run_case(case):
    files = TREES[case["tree"]] if case["tree"] in TREES else BIG
    s = Session(files)
    try:
        for step in case["steps"]:
            if step[0] == "edit":
                tree.write_files(s.root, {step[1]: step[2]})
                keep = s.cfile.read_bytes() if s.cfile.is_file() else None
                s.refresh()  # new valid bytes / fresh report for the edited tree
                if keep is not None:
                    s.cfile.write_bytes(keep)
            elif step[0] == "scan":
                bad = s.scan_and_check("plain scan")
                if bad:
                    return bad
            else:
                bad = run_fault(s, step)
                if bad:
                    return bad
        return None
    finally:
        s.close()


def shrink_candidates(case):
    steps = case["steps"]
    if len(steps) > 1:
        for i in range(len(steps)):
            yield dict(case, steps=steps[:i] + steps[i + 1 :])


# --------------------------------------------------------------------------- shards


def truncations(col, tname, part, nparts, stride=1):
    files = TREES.get(tname, BIG)
    s = Session(files)
    try:
        n = nt = 0
        L = len(s.B)
        offsets = list(range(0, L + 1, stride))
        if stride > 1:  # stratified: every structural character as well
            offsets = sorted(set(offsets) | {i for i, ch in enumerate(s.B) if ch in b'{}[]:,"'} | {i + 1 for i, ch in enumerate(s.B) if ch in b'{}[]:,"'})
        for off in offsets:
            if off % nparts != part:
                continue
            fault = ("truncate", off)
            bad = run_fault(s, fault)
            n += 1
            nt += 0 < off < L
            if bad:
                col.fail({"tree": tname, "steps": [list(fault)]}, bad[0], bad[1])
            elif off % 397 == 0:
                col.sample({"tree": tname, "fault": f"truncate the {L}-byte cache at byte {off}", "prefix_tail": s.B[max(0, off - 40) : off].decode("utf-8", "replace")}, force=len(col.samples) < 3)
        col.bulk(n, nt)
        col.label(f"truncation:{tname}")
        col.notes[f"cache_bytes:{tname}"] = L
    finally:
        s.close()


def structural(col, tname, part, nparts):
    files = TREES.get(tname, BIG)
    s = Session(files)
    try:
        doc = json.loads(s.B.decode("utf-8"))
        faults = []
        for path, val in key_paths(doc):
            if not isinstance(path[-1], int):  # removing an array element leaves a well-formed document with other numbers
                faults.append(("delete_key", list(path)))
            for w in WRONG:
                if _jtype(w) != _jtype(val):
                    faults.append(("replace", list(path), w))
        whole = [None, 0, 1.5, True, "s", "", [], [1], {}, {"version": doc.get("version")}, {"codebase": {}}, {"codebase": {"files": {}}}, [doc], {"root": "/", "uuid": "u", "codebase": {"files": []}}]
        for w in whole:
            faults.append(("doc", w))
        for b in (b"", b" ", b"\n", b"{", b"}", b"not json", b"\xff\xfe\x00", b"\x00" * 64, s.B + b"}", s.B[:-2], s.B.replace(b'"', b"'", 3), b"[" + s.B, s.B + s.B):
            faults.append(("bytes", b.hex()))
        faults += [("no_file",), ("no_markers",), ("no_markers", len(s.B) // 2), ("no_tag",), ("empty_dir",), ("no_dir",)]
        n = nt = 0
        for i, fault in enumerate(faults):
            if i % nparts != part:
                continue
            bad = run_fault(s, fault)
            n += 1
            nt += fault[0] in ("delete_key", "replace", "doc", "bytes") and fault[1:] != ("",)
            col.label(f"fault:{fault[0]}")
            if bad:
                col.fail({"tree": tname, "steps": [list(fault)]}, bad[0], bad[1])
            elif i % 53 == 0:
                col.sample({"tree": tname, "fault": json.loads(json.dumps(fault))}, force=len(col.samples) < 3)
        col.bulk(n, nt)
    finally:
        s.close()


def interrupted(col, tname, part, nparts, stride):
    """Crash points of the real write path: a scan whose writes fail after N bytes, for N over the length of the cache
    (and small N, which also hit the marker files), with and without an existing cache directory; then two more scans."""
    files = TREES.get(tname, BIG)
    s = Session(files)
    try:
        L = len(s.B)
        limits = sorted(set(list(range(0, 80, 7)) + list(range(80, L + stride, stride)) + [L - 1, L, L + 1]))
        n = nt = 0
        for i, limit in enumerate(limits):
            if i % nparts != part:
                continue
            for fresh_dir in (False, True):
                fault = ("interrupt_write", limit, fresh_dir)
                bad = run_fault(s, fault)
                if not bad:
                    bad = s.scan_and_check(f"second scan after {fault!r}")
                n += 1
                nt += 1
                if bad:
                    col.fail({"tree": tname, "steps": [list(fault), ["scan"]]}, bad[0], bad[1])
                elif limit % 5 == 0:
                    col.sample({"tree": tname, "fault": f"scan interrupted: writes fail after {limit} bytes (cache is {L} bytes), cache dir removed first: {fresh_dir}"}, force=len(col.samples) < 2)
        col.bulk(n, nt)
        col.label(f"interrupted-write:{tname}")
    finally:
        s.close()


def gen_sequences(col, seed, n):
    names = sorted(TREES)

    @st.composite
    def seqs(draw):
        tname = draw(st.sampled_from(names))
        files = sorted(TREES[tname])
        steps = []
        for _ in range(draw(st.integers(2, 7))):
            k = draw(st.sampled_from(["truncate", "truncate", "struct", "edit", "scan", "dir"]))
            if k == "truncate":
                steps.append(["truncate", draw(st.integers(0, 4000))])
            elif k == "struct":
                steps.append(draw(st.sampled_from([["doc", None], ["doc", {}], ["doc", []], ["bytes", b"{".hex()], ["delete_key", ["codebase", "files"]], ["delete_key", ["uuid"]],
                                                   ["replace", ["codebase"], "s"], ["replace", ["codebase", "files"], []], ["delete_key", ["root"]]])))
            elif k == "edit":
                steps.append(["edit", draw(st.sampled_from(files + ["new.py"])), draw(st.sampled_from([tree.flat_file("Python", [40]), "x = 1\n", ""]))])
            elif k == "scan":
                steps.append(["scan"])
            else:
                steps.append(draw(st.sampled_from([["no_file"], ["no_markers"], ["empty_dir"], ["no_dir"], ["no_tag"]])))
        steps.append(["scan"])
        return {"tree": tname, "steps": steps}

    def body(case):
        nt = sum(1 for s in case["steps"] if s[0] in ("truncate", "doc", "bytes", "delete_key", "replace")) >= 1 and any(s[0] == "edit" for s in case["steps"])
        col.eval(case, nontrivial=nt, labels=["sequence"] + [f"step:{s[0]}" for s in case["steps"]])

    run_given(body, seqs(), seed, n)


def plan(tier, seed):
    quick = tier == "quick"
    jobs = []
    tr = ["t1", "t2"] if quick else sorted(TREES)
    for t in tr:
        for p in range(4 if quick else 4):
            jobs.append(("truncations", {"tname": t, "part": p, "nparts": 4}))
    for t in (["t1", "t7"] if quick else sorted(TREES)):
        for p in range(4):
            jobs.append(("structural", {"tname": t, "part": p, "nparts": 4}))
    if not quick:
        for p in range(8):
            jobs.append(("truncations", {"tname": "big", "part": p, "nparts": 8, "stride": 7}))
    for t in (["t1"] if quick else sorted(TREES)):
        for p in range(2 if quick else 4):
            jobs.append(("interrupted", {"tname": t, "part": p, "nparts": 2 if quick else 4, "stride": 97 if quick else 13}))
    for i in range(4):
        jobs.append(("gen_sequences", {"seed": shard_seed(seed, ID, i), "n": 15 if quick else 250}))
    return jobs
