"""C08 - the report document is always valid JSON and round-trips losslessly.

Domain : generated codebases (as C07) with arbitrary Unicode text - quotes, backslashes, control characters, non-ASCII,
         astral - in every string field: path segments (no '/', NUL, empty, '.', '..'), unit names, root, checksums,
         repository owner/name/branch; repository present/absent; version in {current, arbitrary text, None}.
Oracle : both pretty and compact documents parse with json.loads and give equal values; the parsed value equals the
         data the report was built from; ReportReader.from_json gives back version, uuid, root, repository, files in the
         same order with checksum, language, loc and measurements, totals and folder profiles; get_report_version
         agrees; ReportWriter(from_json(doc)) reproduces the document except for its timestamp line.
"""
from __future__ import annotations

import io
import json
import re

from hypothesis import strategies as st

from vf.common import call_sut, run_given, shard_seed
from vf.gen import codebase as G
from vf.props import c07

ID = "C08"
LEVEL = "exploration"
RULE = (
    "Hypothesis reports = codebase (C07 generator with 'wild' text in every string field) x repository present/absent "
    "x version {running version, arbitrary text, None}; each is written pretty and compact, parsed, read back and "
    "re-written; non-trivial = some string holds a double quote, backslash, control character or non-ASCII character; "
    "distinct by digest of the generated report"
)
ASSUMPTIONS = [
    "lone surrogates are not generated (they cannot be stored in a UTF-8 file)",
    "a repository tag is never set: the document has no field for it and the statement lists owner, name and branch",
    "the timestamp is not part of the round trip (statement: 'up to its timestamp')",
]
FLOOR = {"quick": 300, "thorough": 5000}


@st.composite
def reports(draw):
    cb = draw(G.codebases(wild=True, max_files=12))
    version = draw(st.one_of(st.just("@current"), st.just(None), G.wild_text, st.sampled_from(["0.18.0", "1.0", "None", "null"])))
    repo = None
    if draw(st.booleans()):
        repo = {
            "owner": draw(st.one_of(st.just("getcodelimit"), G.wild_text)),
            "name": draw(st.one_of(st.just("codelimit"), G.wild_text)),
            "branch": draw(st.one_of(st.just("main"), G.wild_text, st.just(None))),
        }
    return {"codebase": cb, "version": version, "repository": repo}


def _strings(case):
    cb = case["codebase"]
    out = [cb["root"]]
    for f in cb["files"]:
        out += [f["path"], f["checksum"], f["language"]] + list(f["names"])
    if case["repository"]:
        out += [v for v in case["repository"].values() if isinstance(v, str)]
    if isinstance(case["version"], str):
        out.append(case["version"])
    return out


def special(s):
    return any(c in '"\\' or ord(c) < 0x20 or ord(c) > 0x7E for c in s)


def make_report(case):
    from codelimit.common.GithubRepository import GithubRepository
    from codelimit.common.report.Report import Report

    codebase = G.build(case["codebase"])
    repo = None
    if case["repository"]:
        r = case["repository"]
        repo = GithubRepository(r["owner"], r["name"], branch=r["branch"])
    report = Report(codebase, repo)
    if case["version"] != "@current":
        report.version = case["version"]
    return report


def expected_doc(case, report):
    cb = case["codebase"]
    totals, fprof, folders = c07.expected(cb)
    files = {}
    for f in cb["files"]:
        files[f["path"]] = {
            "checksum": f["checksum"],
            "language": f["language"],
            "loc": sum(f["lengths"]),
            "profile": fprof[f["path"]],
            "measurements": [
                {"unit_name": n, "start": {"line": s[0], "column": s[1]}, "end": {"line": s[2], "column": s[3]}, "value": v}
                for n, s, v in zip(f["names"], f["spans"], f["lengths"])
            ],
        }
    doc = {"version": report.VERSION if case["version"] == "@current" else case["version"], "uuid": report.uuid, "timestamp": report.timestamp, "root": cb["root"]}
    if case["repository"]:
        doc["repository"] = dict(case["repository"])
    doc["codebase"] = {
        "totals": totals,
        "tree": {k: {"entries": sorted(v["entries"].elements()), "profile": v["profile"]} for k, v in folders.items()},
        "files": files,
    }
    return doc


def _norm(doc):
    d = json.loads(json.dumps(doc))
    for v in d.get("codebase", {}).get("tree", {}).values():
        if isinstance(v, dict) and isinstance(v.get("entries"), list):
            v["entries"] = sorted(v["entries"], key=lambda x: (str(type(x)), str(x)))
    return d


def _first_diff(a, b, path="$"):
    if type(a) != type(b):
        return f"{path}: {a!r} vs {b!r}"
    if isinstance(a, dict):
        if list(a) != list(b) and set(a) != set(b):
            return f"{path}: keys {sorted(map(repr, set(a) ^ set(b)))[:4]} differ"
        for k in a:
            d = _first_diff(a[k], b[k], f"{path}[{k!r}]")
            if d:
                return d
        return None
    if isinstance(a, list):
        if len(a) != len(b):
            return f"{path}: length {len(a)} vs {len(b)}"
        for i, (x, y) in enumerate(zip(a, b)):
            d = _first_diff(x, y, f"{path}[{i}]")
            if d:
                return d
        return None
    return None if a == b else f"{path}: {a!r} vs {b!r}"


_TS = re.compile(r'"timestamp": "[^"\\]*"')


def _mask_ts(text):
    """The top-level timestamp member is the only one whose raw form is "timestamp": "<no quote, no backslash>";
    the same characters inside any string value are escaped by the writer."""
    return _TS.sub('"timestamp": MASKED', text, count=1)


def run_case(case):
    from codelimit.common.report.ReportReader import ReportReader
    from codelimit.common.report.ReportWriter import ReportWriter

    r = call_sut(make_report, case)
    if r[0] == "exc":
        return (f"build:{r[1]}", r[2])
    report = r[1]
    want = expected_doc(case, report)
    parsed = {}
    texts = {}
    for pretty in (True, False):
        r = call_sut(lambda: ReportWriter(report, pretty).to_json())
        if r[0] == "exc":
            return (f"write:{r[1]}", r[2])
        texts[pretty] = r[1]
        try:
            parsed[pretty] = json.loads(r[1])
        except ValueError as e:
            return ("invalid-json:" + ("pretty" if pretty else "compact"), f"{e}\n{r[1][:1500]}")
    if parsed[True] != parsed[False]:
        return ("pretty-compact-differ", str(_first_diff(parsed[True], parsed[False])))
    d = _first_diff(_norm(want), _norm(parsed[True]))
    if d:
        m = re.match(r"\$\['?(\w+)", d)
        return ("document-vs-data" + (":" + m.group(1) if m else ""), f"expected vs written: {d}")
    # key order of files is part of the statement ("files in the same order")
    if list(parsed[True]["codebase"]["files"]) != [f["path"] for f in case["codebase"]["files"]]:
        return ("document-file-order", "files are not written in codebase order")
    text = texts[True]
    r = call_sut(ReportReader.get_report_version, text)
    if r[0] == "exc":
        return (f"get_report_version:{r[1]}", r[2])
    if r[1] != want["version"]:
        return ("get_report_version", f"get_report_version -> {r[1]!r}, stored {want['version']!r}")
    for pretty in (True, False):
        r = call_sut(ReportReader.from_json, texts[pretty])
        if r[0] == "exc":
            return (f"read:{r[1]}", r[2])
        back = r[1]
        if back.version != want["version"]:
            return ("read:version", f"version read back as {back.version!r}, stored {want['version']!r}")
        if back.uuid != report.uuid:
            return ("read:uuid", f"uuid {back.uuid!r} != {report.uuid!r}")
        if back.codebase.root != case["codebase"]["root"]:
            return ("read:root", f"root {back.codebase.root!r} != {case['codebase']['root']!r}")
        if case["repository"] is None:
            if back.repository is not None:
                return ("read:repository", f"repository appeared: {back.repository!r}")
        else:
            rp = back.repository
            if rp is None or (rp.owner, rp.name, rp.branch) != tuple(case["repository"][k] for k in ("owner", "name", "branch")):
                return ("read:repository", f"repository read back as {rp!r}, stored {case['repository']!r}")
        got_files = list(back.codebase.files)
        if got_files != [f["path"] for f in case["codebase"]["files"]]:
            return ("read:file-order", f"files {got_files!r}")
        for f in case["codebase"]["files"]:
            e = back.codebase.files[f["path"]]
            ms = [[m.unit_name, m.start.line, m.start.column, m.end.line, m.end.column, m.value] for m in e.measurements()]
            wantms = [[n, s[0], s[1], s[2], s[3], v] for n, s, v in zip(f["names"], f["spans"], f["lengths"])]
            if (e.checksum(), e.language, e.loc) != (f["checksum"], f["language"], sum(f["lengths"])) or ms != wantms:
                return ("read:file-entry", f"{f['path']!r}: read back ({e.checksum()!r}, {e.language!r}, {e.loc}, {ms}) expected ({f['checksum']!r}, {f['language']!r}, {sum(f['lengths'])}, {wantms})")
        bad = c07.compare_view(c07.object_view(back.codebase), case["codebase"], "read")
        if bad:
            return bad
        # reading is repeatable: the same text read again gives the same report (no state carried between reads)
        r2 = call_sut(ReportReader.from_json, texts[pretty])
        if r2[0] == "exc":
            return (f"read-again:{r2[1]}", r2[2])
        again = r2[1]
        if (again.version, again.uuid, again.repository, list(again.codebase.files)) != (back.version, back.uuid, back.repository, list(back.codebase.files)):
            return ("read-again-differs", f"second read of the same document: {(again.version, again.uuid, again.repository)} vs first {(back.version, back.uuid, back.repository)}")
        r = call_sut(lambda: ReportWriter(back, pretty).to_json())
        if r[0] == "exc":
            return (f"rewrite:{r[1]}", r[2])
        if _mask_ts(r[1]) != _mask_ts(texts[pretty]):
            a, b = _mask_ts(texts[pretty]).split("\n"), _mask_ts(r[1]).split("\n")
            line = next((i for i, (x, y) in enumerate(zip(a, b)) if x != y), min(len(a), len(b)))
            return ("rewrite-differs", f"write(read(doc)) != doc at line {line + 1}: {a[line:line + 1]} vs {b[line:line + 1]}")
    if case["version"] == "@current":
        # the loader the report / findings commands use (codelimit.utils.read_report) must hand out the same report
        import tempfile
        from pathlib import Path

        from rich.console import Console

        from codelimit.utils import read_report

        with tempfile.TemporaryDirectory(prefix="vf-c08-") as d:
            path = Path(d) / "codelimit.json"
            try:
                path.write_text(texts[False])
            except UnicodeEncodeError:
                return None
            r = call_sut(read_report, path, Console(file=io.StringIO()))
        if r[0] == "exc":
            return (f"read_report:{r[1]}", r[2])
        bad = c07.compare_view(c07.object_view(r[1].codebase), case["codebase"], "read_report")
        if bad:
            return bad
        r = call_sut(lambda: ReportWriter(r[1], False).to_json())
        if r[0] == "exc":
            return (f"read_report:rewrite:{r[1]}", r[2])
        if _mask_ts(r[1]) != _mask_ts(texts[False]):
            return ("read_report:rewrite-differs", "write(read_report(doc)) != doc")
    return None


def shrink_candidates(case):
    if case["repository"] is not None:
        yield dict(case, repository=None)
    if case["version"] != "@current":
        yield dict(case, version="@current")
    for cb in G.shrink_codebase(case["codebase"]):
        yield dict(case, codebase=cb)
    cb = case["codebase"]
    for i, f in enumerate(cb["files"]):
        for j, n in enumerate(f["names"]):
            if n != "f":
                g = dict(f, names=f["names"][:j] + ["f"] + f["names"][j + 1 :])
                yield dict(case, codebase=dict(cb, files=cb["files"][:i] + [g] + cb["files"][i + 1 :]))
    if cb["root"] != "/":
        yield dict(case, codebase=dict(cb, root="/"))


def gen(col, seed, n):
    def body(case):
        strs = _strings(case)
        nt = any(special(s) for s in strs)
        labels = ["repo" if case["repository"] else "no-repo", "version:" + ("current" if case["version"] == "@current" else "none" if case["version"] is None else "other")]
        if any('"' in s for s in strs):
            labels.append("has-quote")
        if any("\\" in s for s in strs):
            labels.append("has-backslash")
        if any(any(ord(c) < 0x20 for c in s) for s in strs):
            labels.append("has-control")
        if any(any(ord(c) > 0xFFFF for c in s) for s in strs):
            labels.append("has-astral")
        col.eval(case, nontrivial=nt, labels=labels)

    run_given(body, reports(), seed, n)


def plan(tier, seed):
    total = 4800 if tier == "quick" else 80000
    return [("gen", {"seed": shard_seed(seed, ID, i), "n": total // 16}) for i in range(16)]
