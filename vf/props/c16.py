"""C16 - token positions are faithful to the source text.

Domain : per language (7): all strings up to length 4 (thorough 5) over a 19-symbol alphabet (letters, digit, newline,
         blank, tab, brackets, quotes, '#', '/', '*', backslash, '=', '>', ':', a non-ASCII letter), exhaustively; all
         strings up to length 3 (thorough 4) over exotic separators (CR, FF, VT, FS, NEL, LS, PS) mixed with newline,
         quote and comment leaders; Hypothesis texts (token soups, arbitrary Unicode, generated canonical programs also with CRLF); vendored corpus files, random slices of them, with / without
         trailing newline, CRLF.
Oracle : Pygments' own (offset, type, text) stream + the harness's offset -> (line, column): lex(.., False) returns
         exactly the tokens that are non-empty and not blank Text/Whitespace, lex(.., True) additionally drops Comment
         tokens; the text found at each reported position equals the token text (and location_to_index agrees); offsets
         strictly increase and tokens do not overlap.
"""
from __future__ import annotations

import zlib

from itertools import product
from pathlib import Path

from hypothesis import strategies as st

from vf.common import HOME, call_sut, run_given, shard_seed

ID = "C16"
LEVEL = "exploration"
RULE = (
    "per language: every string of length <= 4 (thorough 5) over a 19-symbol alphabet and every string of length <= 3 "
    "(thorough 4) over an 12-symbol alphabet of exotic line separators, each lexed with and without comment filtering, in either order and the first setting once more "
    "(enumerated once); Hypothesis texts; corpus files whole, as random slices, with CRLF line ends. "
    "Non-trivial = the text has >= 2 lines and >= 2 kept tokens; distinct by (language, text)"
)
ASSUMPTIONS = [
    "a line is what the tool's consumers take it to be: '\\n'-delimited (location_to_index splits on '\\n' only)",
    "whitespace token = the lexer's Text / Text.Whitespace type with blank text; blank string pieces are content",
    "comment token = any subtype of Pygments' Comment (includes preprocessor lines)",
]
EXHAUSTIVE = {"quick": "strings <= 4 over 19 symbols and <= 3 over 12 separators, x 7 languages", "thorough": "strings <= 5 over 19 symbols and <= 4 over 12 separators, x 7 languages"}
FLOOR = {"quick": 20000, "thorough": 200000}

LANGS = ["c", "cpp", "csharp", "java", "javascript", "typescript", "python"]
ALPHA = ["a", "1", "\n", " ", "\t", "(", ")", "{", "}", '"', "'", "#", "/", "*", "\\", "=", ">", ":", "é"]
SEPS = ["a", "\n", "\r", "\x0c", "\x0b", "\x1c", "\x85", " ", " ", " ", "#", '"']

_LEXERS = {}


def lexer(lang):
    from pygments.lexers import get_lexer_by_name

    if lang not in _LEXERS:
        _LEXERS[lang] = get_lexer_by_name(lang)
    return _LEXERS[lang]


def reference_tokens(lang, text, filter_comments):
    import pygments.token as T

    out = []
    for off, tt, val in lexer(lang).get_tokens_unprocessed(text):
        if val == "":
            continue
        if (tt is T.Text or tt is T.Whitespace) and val.isspace():
            continue
        if filter_comments and tt in T.Comment:
            continue
        line = text.count("\n", 0, off) + 1
        start = text.rfind("\n", 0, off) + 1
        out.append((line, off - start + 1, str(tt), val, off))
    return out


def check_text(lang, text):
    from codelimit.common.lexer_utils import lex
    from codelimit.common.source_utils import location_to_index

    # both settings on the same text, in either order (decided by the text, so a replay repeats it) and once more:
    # what one call returns must not depend on an earlier call for the same text with the other setting
    first = zlib.crc32(text.encode("utf-8", "surrogatepass")) & 1 == 1
    for fc in (first, not first, first):
        want = reference_tokens(lang, text, fc)
        r = call_sut(lex, lexer(lang), text, fc)
        if r[0] == "exc":
            return (f"lex:{r[1]}", f"{lang} {text!r}: {r[2]}")
        got = r[1]
        gl = [(t.location.line, t.location.column, str(t.token_type), t.value) for t in got]
        wl = [w[:4] for w in want]
        if gl != wl:
            if [g[2:] for g in gl] != [w[2:] for w in wl]:
                extra = [g for g in gl if g[2:] not in [w[2:] for w in wl]]
                kind = "kept-whitespace-or-empty" if any(g[3].strip() == "" for g in extra) else ("comments" if len(gl) != len(wl) else "token-set")
                return (f"token-set:{kind}:filter_comments={fc}", f"{lang} {text!r}: lex kept {gl}, expected {wl}")
            i = next(k for k, (g, w) in enumerate(zip(gl, wl)) if g != w)
            return ("position", f"{lang} {text!r}: token {gl[i][3]!r} reported at {gl[i][:2]}, its text occurs at {wl[i][:2]}")
        prev_end = -1
        for t, w in zip(got, want):
            off = w[4]
            if text[off : off + len(t.value)] != t.value:
                return ("text-at-position", f"{lang} {text!r}: token {t.value!r} not found at offset {off}")
            r = call_sut(location_to_index, text, t.location)
            if r[0] == "exc":
                return (f"location_to_index:{r[1]}", r[2])
            if r[1] != off:
                return ("location_to_index", f"{lang} {text!r}: location_to_index({t.location}) = {r[1]}, token starts at offset {off}")
            if off < prev_end or off <= prev_end - 1 and prev_end > 0 and off < prev_end:
                return ("overlap", f"{lang} {text!r}: token at offset {off} overlaps the previous one ending at {prev_end}")
            prev_end = off + len(t.value)
        offs = [w[4] for w in want]
        if any(b <= a for a, b in zip(offs, offs[1:])):
            return ("not-increasing", f"{lang} {text!r}: offsets {offs}")
    return None


def run_case(case):
    return check_text(case["lang"], case["text"])


def shrink_candidates(case):
    t = case["text"]
    lines = t.split("\n")
    if len(lines) > 2:
        for i in range(len(lines)):
            yield dict(case, text="\n".join(lines[:i] + lines[i + 1 :]))
    n = len(t)
    step = max(1, n // 16)
    while step >= 1:
        for i in range(0, n, step):
            yield dict(case, text=t[:i] + t[i + step :])
        if step == 1:
            break
        step //= 2


def _nontrivial(lang, text):
    return text.count("\n") >= 1 and len(reference_tokens(lang, text, False)) >= 2


def enum_strings(col, lang, alphabet, max_len, firsts, tag):
    n = nt = 0
    for first in firsts:
        for ln in range(0, max_len):
            for rest in product(alphabet, repeat=ln):
                text = first + "".join(rest)
                n += 1
                is_nt = text.count("\n") >= 1
                res = check_text(lang, text)
                if res:
                    col.fail({"lang": lang, "text": text}, res[0], res[1])
                if is_nt and len(reference_tokens(lang, text, False)) >= 2:
                    nt += 1
                    if n % 7919 == 0:
                        col.sample({"lang": lang, "text": text}, force=len(col.samples) < 2)
    if firsts and firsts[0] == alphabet[0]:
        n += 1
        res = check_text(lang, "")
        if res:
            col.fail({"lang": lang, "text": ""}, res[0], res[1])
    col.bulk(n, nt)
    col.label(f"{tag}:{lang}")


def templates(col, lang):
    """Every comment kind of the language (see c16_templates.py), with LF, CRLF and without the final newline."""
    from vf.props.c16_templates import EVERY_LANGUAGE, TEMPLATES

    for t in TEMPLATES.get(lang, []) + EVERY_LANGUAGE:
        for variant in (t, t.replace("\n", "\r\n"), t.rstrip("\n")):
            col.eval({"lang": lang, "text": variant}, nontrivial=_nontrivial(lang, variant), labels=["template:comment-kinds"])


SOUP_EXTRA = ["#if 0\n", "#endif\n", "<!--", "-->", "\ufeff", "e\u0301", "\u212b", "[A(\n", "\u0301"]


def corpus_files(lang):
    d = HOME / "corpus" / lang
    return sorted(p for p in d.iterdir() if p.is_file()) if d.exists() else []


def _read(p: Path):
    b = p.read_bytes()
    try:
        return b.decode("utf-8")
    except UnicodeDecodeError:
        return b.decode("latin-1")


def corpus_whole(col, lang):
    for p in corpus_files(lang):
        text = _read(p)
        for variant, t in (("as-is", text), ("no-trailing-newline", text.rstrip("\n")), ("crlf", text.replace("\r\n", "\n").replace("\n", "\r\n")), ("crlf->lf", text.replace("\r\n", "\n"))):
            col.eval({"lang": lang, "text": t}, nontrivial=True, labels=[f"corpus:{variant}"], distinct_key=f"{lang}:{p.name}:{variant}")
            col.samples = [s if not isinstance(s, dict) or len(s.get("text", "")) < 300 else {"lang": s["lang"], "text": s["text"][:300] + "...(truncated)"} for s in col.samples]


def gen_texts(col, seed, n, lang):
    corp = [_read(p) for p in corpus_files(lang)]
    alpha = st.sampled_from(ALPHA + ["\r\n", "\x0c", "def ", "function ", "//", "/*", "*/", '"""', "`", "${", "\\\n", "é😀", " "])

    @st.composite
    def texts(draw):
        kind = draw(st.sampled_from(["soup", "soup", "slice", "unicode", "canonical"]))
        if kind == "canonical":
            from vf.gen import programs as P

            full = {v: k for k, v in P.LEXER.items()}[lang]
            text = P.render(P.gen_program(draw(st.randoms(use_true_random=False)), full, draw(st.sampled_from([8, 20])))).text
            if draw(st.booleans()):
                text = text.replace("\n", "\r\n")
            return text, "canonical"
        if kind == "soup" or not corp:
            return "".join(draw(st.lists(st.one_of(alpha, alpha, alpha, st.sampled_from(SOUP_EXTRA)), max_size=40))), "soup"
        if kind == "unicode":
            return draw(st.text(max_size=30)), "unicode"
        src = draw(st.sampled_from(corp))
        a = draw(st.integers(0, max(0, len(src) - 1)))
        b = a + draw(st.integers(0, 600))
        return src[a:b], "slice"

    def body(v):
        text, kind = v
        col.eval({"lang": lang, "text": text}, nontrivial=_nontrivial(lang, text), labels=[f"gen:{kind}"])

    run_given(body, texts(), seed, n)


CORPUS_DIR = {"c": "c", "cpp": "cpp", "csharp": "csharp", "java": "java", "javascript": "javascript", "typescript": "typescript", "python": "python"}


def plan(tier, seed):
    quick = tier == "quick"
    jobs = []
    L = 4 if quick else 5
    for lang in LANGS:
        groups = [ALPHA[i::3] for i in range(3)] if quick else [[a] for a in ALPHA]
        for g in groups:
            jobs.append(("enum_strings", {"lang": lang, "alphabet": ALPHA, "max_len": L, "firsts": g, "tag": "enum"}))
        jobs.append(("enum_strings", {"lang": lang, "alphabet": SEPS, "max_len": 3 if quick else 4, "firsts": SEPS, "tag": "separators"}))
        jobs.append(("corpus_whole", {"lang": lang}))
        jobs.append(("templates", {"lang": lang}))
        jobs.append(("gen_texts", {"seed": shard_seed(seed, ID, lang), "n": 300 if quick else 6000, "lang": lang}))
    return jobs
