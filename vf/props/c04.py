"""C04 - comments, blank lines and whitespace never change what is measured.

Domain : base files = canonical generated programs (all 7 languages) and the vendored corpus of real-world sources.
         A plan is 1..30 simultaneous edits at token-safe places: removal of an existing blank line or of a line that
         holds nothing but one single-line comment, and insertions: blank line, whitespace-only line,
         comment-only line in every comment style of the language (#; //, /* */, multi-line /* */) at any
         indentation, trailing comment, trailing blanks/tabs; thorough adds every single safe boundary x every style
         for every corpus file, and the inverse direction (all trivia stripped from generated programs).
         A line boundary is token-safe iff the newline character belongs to a whitespace-only token of the BASE text (or
         is the last character of a comment token); the decision uses the lexer's own token spans.
         One generated case in five runs through the file-based entry point instead: scan_command, edit the file on
         disk, scan_command again (which finds the first scan's cache); C / C++ bases then also use the ambiguous
         extensions .h / .hpp.
Oracle : metamorphic - same function names in the same order with equal lengths and columns; every start / end line
         shifted by exactly the number of lines inserted above it.
"""
from __future__ import annotations

import bisect
from pathlib import Path

from hypothesis import strategies as st

from vf.common import HOME, call_sut, digest, run_given, shard_seed, withheld_constructs
from vf.gen import programs as P
from vf.props.c01 import tool_scan_file

ID = "C04"
LEVEL = "exploration"
RULE = (
    "Hypothesis: base (generated canonical program or corpus file) x insertion plan of 1..30 edits drawn over the "
    "token-safe boundaries of that base; plus deterministic single edits (quick: a stride, thorough: every safe boundary "
    "x every comment style of every corpus file) and trivia-stripping of generated programs. A quarter of the generated C / C++ bases "
    "holds an #if 0 region, some bases are hand-written texts that already carry suppression markers; one generated case in five goes scan -> edit on disk -> scan (some of these edits make the file invalid UTF-8 beyond its first 8 KiB). Non-trivial = at least one "
    "inserted blank / whitespace / comment-only line lands strictly inside a reported function's span; distinct by "
    "digest of (base, plan)"
)
ASSUMPTIONS = [
    "token-safety is decided on Pygments' token spans of the base text: the newline must belong to a whitespace-only token, "
    "or be the last character of a comment / preprocessor token",
    "inserted comments never start with the suppression marker and contain no comment terminators",
    "open known finding withheld by construction: comment edits inside a C / C++ declaration header (Pygments' function-definition rule is not comment-aware)",
]
FLOOR = {"quick": 800, "thorough": 20000}

LANG_OF_DIR = {"c": "C", "cpp": "C++", "csharp": "C#", "java": "Java", "javascript": "JavaScript", "typescript": "TypeScript", "python": "Python"}
COMMENT_BODIES = ["see [section two]", "@end", "@implementation Foo", "[obj msg:arg]", "note", "x(y) { z }", "if (a) {", "}", "{", "def f(a):", "function g() {", "(", ")", "a = b;", "int f(int a) {", "\"", "'", "`", "see nocl",
                  "not nocl", "keep (NOCL is elsewhere)", "form\x0cfeed"]
BLANKS = ["  ", "\t", "        ", " \t ", "\x0c", "\x0b", " \x0c", "\x1c"]


def corpus():
    out = []
    for d, lang in LANG_OF_DIR.items():
        p = HOME / "corpus" / d
        if p.exists():
            for f in sorted(p.iterdir()):
                if f.is_file():
                    out.append((lang, f"{d}/{f.name}"))
    return out


def read_corpus(rel):
    b = (HOME / "corpus" / rel).read_bytes()
    try:
        return b.decode("utf-8")
    except UnicodeDecodeError:
        return b.decode("latin-1")


_SAFE_CACHE = {}


def safe_lines(lang, text):
    """-> (boundaries, trailing): boundaries = sorted line numbers i (0..n) after which whole lines may be inserted;
    trailing = line numbers whose end may receive a trailing comment / blanks. Lines are 1-based; 0 = before line 1."""
    key = (lang, hash(text), len(text))
    if key in _SAFE_CACHE:
        return _SAFE_CACHE[key]
    import pygments.token as T
    from pygments.lexers import get_lexer_by_name

    lx = get_lexer_by_name(P.LEXER[lang])
    nl_safe = {}
    for off, tt, val in lx.get_tokens_unprocessed(text):
        if "\n" not in val:
            continue
        ws = (tt is T.Text or tt is T.Whitespace) and val.isspace()
        for k, ch in enumerate(val):
            if ch == "\n":
                pos = off + k
                if ws:
                    nl_safe[pos] = True
                elif tt in T.Comment and k == len(val) - 1:
                    nl_safe[pos] = "comment"
                else:
                    nl_safe[pos] = False
    boundaries, trailing = [0], []
    line = 0
    for pos, ch in enumerate(text):
        if ch == "\n":
            line += 1
            ok = nl_safe.get(pos, False)
            prev = text[pos - 1] if pos > 0 else ""
            if ok and prev != "\\" and prev != "\r":
                boundaries.append(line)
                if ok is True:
                    trailing.append(line)
    # removable lines: blank / whitespace-only lines and lines holding nothing but one single-line comment
    removable = []
    bset = set(boundaries)
    line_kind = {}
    for off, tt, val in lx.get_tokens_unprocessed(text):
        if not val:
            continue
        first = text.count("\n", 0, off) + 1
        ws = (tt is T.Text or tt is T.Whitespace) and val.isspace()
        body = val[:-1] if val.endswith("\n") else val
        n_inner = body.count("\n")
        for ln in range(first, first + n_inner + 1):
            if ws:
                k = "ws"
            elif tt in T.Comment and n_inner == 0 and tt not in T.Comment.Preproc and tt not in T.Comment.PreprocFile:
                k = "comment"
            else:
                k = "code"
            prevk = line_kind.get(ln)
            line_kind[ln] = k if prevk is None or prevk == "ws" or (prevk == "comment" and k == "ws") else ("code" if k == "code" or prevk == "code" else "code" if (prevk == "comment" and k == "comment") else prevk)
    nlines = text.count("\n")
    for ln in range(1, nlines + 1):
        if line_kind.get(ln, "ws") in ("ws", "comment") and ln in bset and (ln - 1) in bset:
            removable.append(ln)
    res = (boundaries, trailing, removable)
    if len(_SAFE_CACHE) > 64:
        _SAFE_CACHE.clear()
    _SAFE_CACHE[key] = res
    return res


def comment_line(lang, style, body, indent):
    if lang == "Python" or style == "hash":
        return [f"{indent}# {body}"]
    if style == "line":
        return [f"{indent}// {body}"]
    if style == "block":
        return [f"{indent}/* {body} */"]
    return [f"{indent}/* {body}", f"{indent} * more", f"{indent} */"]


def apply_plan(text, edits):
    """edits: [{'after': line, 'lines': [...]}] or [{'trail': line, 'text': ' // c'}]. -> (new_text, inserted_after sorted list)"""
    lines = text.split("\n")  # lines[i-1] is line i; a trailing "" if text ends with "\n"
    ins = {}
    trail = {}
    removed = set()
    for e in edits:
        if "after" in e:
            ins.setdefault(e["after"], []).extend(e["lines"])
        elif "remove" in e:
            removed.add(e["remove"])
        else:
            trail[e["trail"]] = trail.get(e["trail"], "") + e["text"]
    out = []
    shifts = []  # (after_line, count)
    for ln in ins.get(0, []):
        out.append(ln)
    if 0 in ins:
        shifts.append((0, len(ins[0])))
    for i, content in enumerate(lines, 1):
        if i in removed and i < len(lines):
            shifts.append((i, -1))
            continue
        out.append(content + trail.get(i, ""))
        if i in ins and i < len(lines):
            out.extend(ins[i])
            shifts.append((i, len(ins[i])))
    return "\n".join(out), shifts


def shift_of(shifts, line):
    return sum(c for after, c in shifts if after < line)


_BASE_CACHE = {}


def _base(lang, text):
    key = (lang, hash(text), len(text))
    if key not in _BASE_CACHE:
        if len(_BASE_CACHE) > 32:
            _BASE_CACHE.clear()
        _BASE_CACHE[key] = call_sut(tool_scan_file, lang, text)
    return _BASE_CACHE[key]


def _scan_file_on_disk(root, rel):
    """scan_command (cache-assisted when a cache exists) -> measurements of `rel` from the report it wrote, or an error."""
    import json as _json

    from vf.harness import cli

    res = cli.run_scan(root, ".")
    if res.exc:
        return ("exc", res.exc[0], res.exc[1])
    doc = _json.loads((root / ".codelimit_cache" / "codelimit.json").read_text())
    e = doc["codebase"]["files"].get(rel)
    if e is None:
        return ("ok", None)
    return ("ok", [(m["unit_name"], m["start"]["line"], m["start"]["column"], m["end"]["line"], m["end"]["column"], m["value"]) for m in e["measurements"]])


def check_plan_on_disk(lang, text, edits, ext, encoding="utf-8"):
    """The same relation through the file-based entry point, twice in a row: scan, edit the file, scan again (the second
    scan finds the first one's cache). The extension may be an ambiguous one ('.h')."""
    from vf.harness import tree

    rel = f"src/prog.{ext}"
    new_text, shifts = apply_plan(text, edits)
    with tree.temp_tree({rel: text}) as root:
        r = _scan_file_on_disk(root, rel)
        if r[0] == "exc" or r[1] is None:
            return None, None
        base = r[1]
        (root / rel).write_bytes(new_text.encode(encoding))  # 'latin-1': the edited file is no longer valid UTF-8
        r = _scan_file_on_disk(root, rel)
    if r[0] == "exc":
        return base, (f"{lang}:on-disk:{r[1]}", r[2])
    if r[1] is None:
        return base, (f"{lang}:on-disk:file-disappeared", f"after the edit the file is no longer analysed at all (extension .{ext})\nedits: {edits}")
    got = r[1]
    want = [(m[0], m[1] + shift_of(shifts, m[1]), m[2], m[3] + shift_of(shifts, m[3]), m[4], m[5]) for m in base]
    if got == want:
        return base, None
    if [g[0] for g in got] != [w[0] for w in want]:
        return base, (f"{lang}:on-disk:functions-changed", f"functions {[w[0] for w in want]} -> {[g[0] for g in got]} (extension .{ext})\nedits: {edits}")
    g, w = next((g, w) for g, w in zip(got, want) if g != w)
    kind = "length-changed" if g[5] != w[5] else "line-shift-wrong" if (g[1], g[3]) != (w[1], w[3]) else "column-changed"
    return base, (f"{lang}:on-disk:{kind}", f"{g[0]}: {w} expected after the edit, second scan reports {g} (extension .{ext})\nedits: {edits}")


def check_plan(lang, text, edits):
    r = _base(lang, text)
    if r[0] == "exc":
        return None, None  # the base itself is not analysable: C03's subject
    base = r[1]
    new_text, shifts = apply_plan(text, edits)
    r = call_sut(tool_scan_file, lang, new_text)
    if r[0] == "exc":
        return base, (f"{lang}:{r[1]}", r[2])
    got = r[1]
    want = [(m[0], m[1] + shift_of(shifts, m[1]), m[2], m[3] + shift_of(shifts, m[3]), m[4], m[5]) for m in base]
    if got == want:
        return base, None
    gn, wn = [g[0] for g in got], [w[0] for w in want]
    if gn != wn:
        kind = "function-disappeared" if len(gn) < len(wn) else "function-appeared" if len(gn) > len(wn) else "names-changed"
        detail = f"functions {wn} -> {gn}"
    else:
        g, w = next((g, w) for g, w in zip(got, want) if g != w)
        kind = "length-changed" if g[5] != w[5] else "line-shift-wrong" if (g[1], g[3]) != (w[1], w[3]) else "column-changed"
        detail = f"{g[0]}: {w} expected after the edit, reported {g}"
    return base, (f"{lang}:{kind}", f"{detail}\nedits: {edits}")


def _load(case):
    if "corpus" in case:
        return read_corpus(case["corpus"])
    return case["text"]


def run_case(case):
    if case.get("kind") == "strip":
        return check_strip(case)
    if case.get("kind") == "findings-order":
        return check_findings_order(case)
    if case.get("on_disk"):
        _, bad = check_plan_on_disk(case["lang"], _load(case), case["edits"], case["on_disk"], case.get("disk_encoding", "utf-8"))
        return bad
    _, bad = check_plan(case["lang"], _load(case), case["edits"])
    return bad


def shrink_candidates(case):
    if case.get("kind") == "findings-order":
        return
    if case.get("kind") == "strip":
        for a in P.shrink_ast(case["ast"]):
            yield dict(case, ast=a)
        return
    edits = case["edits"]
    if len(edits) > 1:
        for i in range(len(edits)):
            yield dict(case, edits=edits[:i] + edits[i + 1 :])


# --------------------------------------------------------------------------- inverse: strip all trivia from generated programs


def strip_trivia(ast):
    import copy

    a = copy.deepcopy(ast)

    def walk(node):
        for key in ("items", "body", "orelse"):
            lst = node.get(key)
            if isinstance(lst, list):
                lst[:] = [c for c in lst if c["k"] not in ("blank", "cmt")]
                if key in ("body", "items") and not lst and a["lang"] == "Python":
                    lst.append({"k": "s", "t": "pass", "tc": None})
                for c in lst:
                    walk(c)
        for key in ("tc", "tc_open", "tc_close", "name_tc", "pre_c", "above_c"):
            if node.get(key):
                node[key] = None

    walk(a)
    return a


def check_strip(case):
    ast = case["ast"]
    lang = ast["lang"]
    full = P.render(ast).text
    bare_ast = strip_trivia(ast)
    if bare_ast == ast:
        return None
    bare = P.render(bare_ast).text
    r1 = call_sut(tool_scan_file, lang, full)
    r2 = call_sut(tool_scan_file, lang, bare)
    if r1[0] == "exc" or r2[0] == "exc":
        bad = r1 if r1[0] == "exc" else r2
        return (f"{lang}:{bad[1]}", bad[2])
    a = [(m[0], m[5]) for m in r1[1]]
    b = [(m[0], m[5]) for m in r2[1]]
    # a Python suite that consisted of trivia only received a 'pass': that function is one line longer in the bare text
    if a != b:
        return (f"{lang}:strip-changes-result", f"with trivia {a}\nwithout {b}\n--- with trivia:\n{full}\n--- without:\n{bare}")
    return None


# --------------------------------------------------------------------------- generators


def _inside(base, line):
    return any(m[1] <= line < m[3] for m in base)


def draw_plan(draw, lang, text, max_edits=30):
    boundaries, trailing, removable = safe_lines(lang, text)
    r = _base(lang, text)
    name_lines = sorted({m[1] for m in r[1]} & set(trailing)) if r[0] == "ok" else []
    n = draw(st.integers(1, max_edits))
    edits = []
    styles = ["hash"] if lang == "Python" else ["line", "block", "mblock"]
    for _ in range(n):
        kind = draw(st.sampled_from(["blank", "ws", "comment", "comment", "trail_comment", "trail_ws", "remove"]))
        if kind == "remove":
            if removable:
                edits.append({"remove": draw(st.sampled_from(removable)), "kind": "remove"})
            continue
        if kind in ("blank", "ws", "comment"):
            after = draw(st.sampled_from(boundaries))
            if kind == "blank":
                lines = [""] * draw(st.integers(1, 2))
            elif kind == "ws":
                lines = [draw(st.sampled_from(BLANKS))]
            else:
                indent = draw(st.sampled_from(["", "", "  ", "    ", "\t", "            "]))
                lines = comment_line(lang, draw(st.sampled_from(styles)), draw(st.sampled_from(COMMENT_BODIES)), indent)
            edits.append({"after": after, "lines": lines, "kind": kind})
        elif trailing:
            line = draw(st.sampled_from(trailing))
            if name_lines and draw(st.integers(0, 3)) == 0:
                line = draw(st.sampled_from(name_lines))  # the line of a function's name
            if kind == "trail_ws":
                edits.append({"trail": line, "text": draw(st.sampled_from([" ", "\t", "   ", "\x0c", " \x0b"])), "kind": kind})
            else:
                body = draw(st.sampled_from(COMMENT_BODIES))
                style = draw(st.sampled_from(styles))
                txt = f"  # {body}" if lang == "Python" else (f" // {body}" if style == "line" else f" /* {body} */")
                edits.append({"trail": line, "text": txt, "kind": kind})
    # two trailing comments on one line: the second would sit inside the first ('// a /* b */' is fine, '/* a */ // b' too)
    seen = set()
    out = []
    for e in edits:
        if "trail" in e and e["kind"] == "trail_comment":
            if e["trail"] in seen:
                continue
            seen.add(e["trail"])
        out.append(e)
    # a removed line receives no other edit (and is removed once)
    gone = set()
    final = []
    for e in out:
        if "remove" in e:
            if e["remove"] in gone:
                continue
            gone.add(e["remove"])
        final.append(e)
    return [e for e in final if not (("after" in e and e["after"] in gone) or ("trail" in e and e["trail"] in gone))]


_CODE_CACHE = {}


def _code_tokens(lang, text):
    key = (lang, hash(text), len(text))
    if key not in _CODE_CACHE:
        import pygments.token as T
        from pygments.lexers import get_lexer_by_name

        toks = [(off, val) for off, tt, val in get_lexer_by_name(P.LEXER[lang]).get_tokens_unprocessed(text)
                if val.strip() and tt not in T.Comment]
        nl = [i for i, ch in enumerate(text) if ch == "\n"]
        depth, depths = 0, []
        for _, v in toks:
            if v == "(":
                depth += 1
            elif v == ")":
                depth = max(0, depth - 1)
            depths.append(depth)  # parenthesis depth AFTER this token
        if len(_CODE_CACHE) > 64:
            _CODE_CACHE.clear()
        _CODE_CACHE[key] = ([t[0] for t in toks], [t[1] for t in toks], nl, depths)
    return _CODE_CACHE[key]


def in_header_region(lang, text, line):
    """C / C++ only: the end of `line` (1-based; 0 = start of file) lies inside a declaration header, i.e. the last code
    token before it does not end a statement or block (';', '{', '}') or the next code token is '{'."""
    offs, vals, nl, depths = _code_tokens(lang, text)
    pos = nl[line - 1] if 0 < line <= len(nl) else (0 if line == 0 else len(text))
    k = bisect.bisect_left(offs, pos)
    prev = vals[k - 1] if k > 0 else None
    nxt = vals[k] if k < len(vals) else None
    inside_parens = k > 0 and depths[k - 1] > 0
    return inside_parens or (prev is not None and prev[-1:] not in (";", "{", "}")) or nxt == "{"


def withhold_known(lang, text, edits, known):
    """Open known finding 'pygments_c_function_rule': Pygments' C/C++ lexer recognises function definitions with one
    regular expression spanning 'type name(params) qualifiers {' that is not comment-aware; a comment placed inside
    that region changes the token types (or even lets comment text be lexed as code). Comment edits inside a header
    region of a C / C++ file are withheld and counted."""
    if "pygments_c_function_rule" not in known or lang not in ("C", "C++"):
        return edits, 0
    out, dropped = [], 0
    for e in edits:
        if e["kind"] in ("comment", "trail_comment", "remove"):
            line = e["after"] if "after" in e else e["trail"] if "trail" in e else e["remove"] - 1
            if in_header_region(lang, text, line):
                dropped += 1
                continue
        out.append(e)
    return out, dropped


def known_signature(case, bucket, entry):
    """A failure belongs to the open finding iff it disappears once the withheld edits are removed from the plan."""
    if case.get("kind") == "strip" or "pygments_c_function_rule" not in entry.get("withhold", []):
        return False
    text = _load(case)
    kept, dropped = withhold_known(case["lang"], text, case["edits"], {"pygments_c_function_rule"})
    if dropped == 0:
        return False
    if not kept:
        return True
    _, bad = check_plan(case["lang"], text, kept)
    return bad is None


def gen(col, seed, n, lang, use_corpus):
    known = withheld_constructs(ID)
    files = [rel for lg, rel in corpus() if lg == lang]
    from vf.props.c17 import template_cases

    marked_bases = [] if use_corpus else sorted({c["template"]["text"] for c in template_cases() if c["template"]["lang"] == lang})

    @st.composite
    def cases(draw):
        if use_corpus and files:
            rel = draw(st.sampled_from(files))
            text = read_corpus(rel)
            case = {"lang": lang, "corpus": rel}
        elif marked_bases and draw(st.integers(0, 7)) == 0:
            # hand-written bases that already carry suppression markers (one-line functions, functions sharing a line):
            # blank and ordinary comment lines between them must not change who is suppressed
            text = draw(st.sampled_from(marked_bases))
            case = {"lang": lang, "text": text}
        else:
            rnd = draw(st.randoms(use_true_random=False))
            ast = P.gen_program(rnd, lang, draw(st.sampled_from([10, 20, 35])))
            text = P.render(ast).text
            if lang in ("C", "C++") and draw(st.integers(0, 3)) == 0:
                # a disabled region (#if 0 ... #endif: comment tokens to the lexer) somewhere in the base program; the plan
                # below may then insert or remove blank and comment lines inside it as anywhere else
                b = safe_lines(lang, text)[0]
                at = draw(st.sampled_from(b))
                text, _ = apply_plan(text, [{"after": at, "lines": ["#if 0", "  dead_call(1);", "", "  // kept for reference", "  if (x) { y(); }", "#endif"]}])
            if draw(st.integers(0, 7)) == 0:
                text = "\ufeff" + text  # a file saved with a byte order mark
            case = {"lang": lang, "text": text}
        edits = draw_plan(draw, lang, text)
        return case, text, edits

    def body(v):
        case, text, edits = v
        edits, dropped = withhold_known(lang, text, edits, known)
        col.excluded_known += dropped
        if not edits:
            return
        case = dict(case, edits=edits)
        if "corpus" not in case and not text.startswith("\ufeff") and int(digest(text), 16) % 5 == 0:
            from vf.harness import tree as _tree

            ext = _tree.EXT[lang]
            if lang in ("C", "C++") and int(digest(text), 16) % 2 == 0:
                ext = "h" if lang == "C" else "hpp"
            case = dict(case, on_disk=ext)
            enc = "utf-8"
            if int(digest(text), 16) % 15 == 0:
                # the edit makes the file invalid UTF-8 far from its start: > 8 KiB of ASCII comment lines on top, and
                # a comment with an ISO-8859-1 letter after the last line, the file stored as ISO-8859-1
                lead = "#" if lang == "Python" else "//"
                last = max(safe_lines(lang, text)[0])
                edits = [e for e in edits if not ("after" in e and e["after"] in (0, last))]
                edits = edits + [{"after": 0, "lines": [f"{lead} {'padding ' * 7}{i}" for i in range(160)], "kind": "comment"},
                                 {"after": last, "lines": [f"{lead} d\u00e9but"], "kind": "comment"}]
                if all(ord(ch) < 256 for ch in apply_plan(text, edits)[0]):
                    enc = "latin-1"
                    case = dict(case, edits=edits, disk_encoding=enc)
                    col.label("on-disk:edited-file-not-utf8-beyond-8KiB")
            base, bad = check_plan_on_disk(lang, text, case["edits"], ext, enc)
            edits = case["edits"]
            col.label("via:scan-edit-scan-on-disk", f"ext:{ext}")
        else:
            base, bad = check_plan(lang, text, edits)
        col.evals += 1
        if base is None:
            col.label("base-not-analysable")
            return
        nt = any(("after" in e and _inside(base, e["after"])) or ("remove" in e and _inside(base, e["remove"])) for e in edits)
        kinds = {e["kind"] for e in edits}
        for k in kinds:
            col.label(f"edit:{k}")
        col.label(f"lang:{lang}", "base:corpus" if "corpus" in case else "base:generated")
        if text.startswith("\ufeff"):
            col.label("base:with-bom")
        if "#if 0\n" in text and "corpus" not in case:
            col.label("base:with-disabled-region")
        if text in marked_bases:
            col.label("base:with-suppression-markers")
        if nt:
            col.nontrivial.add(digest(case))
            col.sample({"lang": lang, "base": case.get("corpus", "generated program"), "edits": edits[:6]})
        if bad:
            col.fail(case, bad[0], bad[1])

    run_given(body, cases(), seed, n)


def single_edits(col, lang, rel, stride, offset):
    """Every (stride-th) safe boundary of one corpus file x every comment style / blank / whitespace line."""
    known = withheld_constructs(ID)
    text = read_corpus(rel)
    r = call_sut(tool_scan_file, lang, text)
    if r[0] == "exc":
        col.label("base-not-analysable")
        return
    base = r[1]
    boundaries, trailing, removable = safe_lines(lang, text)
    styles = ["hash"] if lang == "Python" else ["line", "block", "mblock"]
    n = nt = 0
    for ri, line in enumerate(removable):
        if ri % stride != offset:
            continue
        edits, dropped = withhold_known(lang, text, [{"remove": line, "kind": "remove"}], known)
        col.excluded_known += dropped
        if not edits:
            continue
        _, bad = check_plan(lang, text, edits)
        n += 1
        nt += _inside(base, line)
        if bad:
            col.fail({"lang": lang, "corpus": rel, "edits": edits}, bad[0], bad[1])
    col.bulk(n, nt)
    variants = [("blank", [""]), ("ws", ["    "]), ("ws", ["\x0c"])] + [("comment", comment_line(lang, s, "x(y) {", "")) for s in styles]
    n = nt = 0
    for bi, after in enumerate(boundaries):
        if bi % stride != offset:
            continue
        for kind, lines in variants:
            edits = [{"after": after, "lines": lines, "kind": kind}]
            edits, dropped = withhold_known(lang, text, edits, known)
            col.excluded_known += dropped
            if not edits:
                continue
            _, bad = check_plan(lang, text, edits)
            n += 1
            inside = _inside(base, after)
            nt += inside
            if bad:
                col.fail({"lang": lang, "corpus": rel, "edits": edits}, bad[0], bad[1])
    starts = {m[1] for m in base}
    for ti, line in enumerate(trailing):
        if ti % (stride * 3) != offset and not (line in starts and (stride == 1 or ti % 6 == offset % 6)):
            continue
        txt = "  # see nocl" if lang == "Python" else " // c(d) { see nocl"
        edits = [{"trail": line, "text": txt, "kind": "trail_comment"}]
        edits, dropped = withhold_known(lang, text, edits, known)
        col.excluded_known += dropped
        if not edits:
            continue
        _, bad = check_plan(lang, text, edits)
        n += 1
        if bad:
            col.fail({"lang": lang, "corpus": rel, "edits": edits}, bad[0], bad[1])
    col.bulk(n, nt)
    col.label(f"single:{lang}")


def marked_single_edits(col, lang):
    """Every safe boundary of every hand-written base that carries suppression markers x blank line / comment line."""
    from vf.props.c17 import template_cases

    known = withheld_constructs(ID)
    bases = sorted({c["template"]["text"] for c in template_cases() if c["template"]["lang"] == lang})
    style = "hash" if lang == "Python" else "line"
    n = 0
    for text in bases:
        boundaries, trailing, removable = safe_lines(lang, text)
        for after in boundaries:
            for kind, lines in (("blank", [""]), ("comment", comment_line(lang, style, "note", "")), ("ws", ["   "])):
                edits, dropped = withhold_known(lang, text, [{"after": after, "lines": lines, "kind": kind}], known)
                col.excluded_known += dropped
                if not edits:
                    continue
                base, bad = check_plan(lang, text, edits)
                n += 1
                if bad:
                    col.fail({"lang": lang, "text": text, "edits": edits}, bad[0], bad[1])
    col.bulk(n, n)
    col.label("single:marked-bases")


def header_file_edits(col, lang, seed):
    """Generated C / C++ programs stored as header files ('.h' / '.hpp': several Pygments lexers claim them), scanned,
    edited on disk with one comment whose text looks like another language, scanned again: every such comment body at the
    top, in the middle and at the end of the file."""
    import random

    ext = "h" if lang == "C" else "hpp"
    rnd = random.Random(seed)
    n = 0
    for _ in range(3):
        text = P.render(P.gen_program(rnd, lang, 20)).text
        boundaries = safe_lines(lang, text)[0]
        for body in [b for b in COMMENT_BODIES if b.startswith(("@", "[", "see [")) or "def " in b or "function " in b]:
            for after in (0, boundaries[len(boundaries) // 2], boundaries[-1]):
                for style in ("line", "block"):
                    edits = [{"after": after, "lines": comment_line(lang, style, body, ""), "kind": "comment"}]
                    base, bad = check_plan_on_disk(lang, text, edits, ext)
                    if base is None:
                        continue
                    n += 1
                    if bad:
                        col.fail({"lang": lang, "text": text, "edits": edits, "on_disk": ext}, bad[0], bad[1])
    col.bulk(n, n)
    col.label(f"single:header-file:{ext}")


def check_findings_order(case):
    """scan + findings, insert comment lines at the top of the file on disk, scan + findings again: the findings list must
    name the same functions in the same order (equal lengths included), every line number shifted by the insertion."""
    from vf.harness import cli, tree
    from vf.props.c18 import parse_findings_text

    lang, k = case["lang"], case["insert"]
    lead = "#" if lang == "Python" else "//"
    text = "".join(f"{lead} header line {i}\n" for i in range(case["lead_lines"])) + tree.flat_file(lang, case["lengths"])
    rel = f"src/prog.{tree.EXT[lang]}"
    listings = []
    with tree.temp_tree({rel: text}) as root:
        for step in range(2):
            if step == 1:
                (root / rel).write_text("".join(f"{lead} inserted {i}\n" for i in range(k)) + text)
            res = cli.run_scan(root, ".")
            if res.exc:
                return (f"{lang}:findings-order:scan:{res.exc[0]}", res.exc[1])
            res = cli.run_findings(root, ".", full=True)
            if res.exc:
                return (f"{lang}:findings-order:findings:{res.exc[0]}", res.exc[1])
            listings.append([(name, ln) for _, name, ln in parse_findings_text(res.out)[0]])
    if listings[0] != listings[1]:
        return (f"{lang}:findings-order-changed", f"{k} comment lines inserted at the top: findings {listings[0]} -> {listings[1]}")
    return None


def findings_order_edits(col, lang):
    n = 0
    for lead_lines in (0, 6, 8):
        for lengths in ([33, 33, 33], [35, 31, 35, 31], [61, 33, 61]):
            if lang == "Python":
                lengths = [max(2, v) for v in lengths]
            for k in (1, 3, 5, 60, 95):
                n += 1
                case = {"kind": "findings-order", "lang": lang, "lead_lines": lead_lines, "lengths": lengths, "insert": k}
                bad = check_findings_order(case)
                if bad:
                    col.fail(case, bad[0], bad[1])
    col.bulk(n, n)
    col.label("single:findings-order")


def gen_strip(col, seed, n, lang):
    def body(v):
        rnd, size = v
        ast = P.gen_program(rnd, lang, size)
        has = any(lb in ast["labels"] for lb in ("blank_line", "line_comment", "block_comment", "block_comment_multiline", "trailing_comment"))
        col.eval({"kind": "strip", "ast": ast}, nontrivial=has, labels=["strip", f"lang:{lang}"], distinct_key="strip" + lang + P.render(ast).text)
        col.samples = [s if not (isinstance(s, dict) and "ast" in s) else {"kind": "strip", "lang": lang, "text": P.render(s["ast"]).text[:800]} for s in col.samples]

    run_given(body, st.tuples(st.randoms(use_true_random=False), st.sampled_from([10, 20, 35])), seed, n)


def plan(tier, seed):
    quick = tier == "quick"
    jobs = []
    per = 100 if quick else 2000
    for lang in P.LANGS:
        jobs.append(("gen", {"seed": shard_seed(seed, ID, f"g{lang}"), "n": per, "lang": lang, "use_corpus": False}))
        jobs.append(("gen", {"seed": shard_seed(seed, ID, f"c{lang}"), "n": per, "lang": lang, "use_corpus": True}))
        jobs.append(("gen_strip", {"seed": shard_seed(seed, ID, f"s{lang}"), "n": 60 if quick else 1500, "lang": lang}))
        jobs.append(("marked_single_edits", {"lang": lang}))
        jobs.append(("findings_order_edits", {"lang": lang}))
        if lang in ("C", "C++"):
            jobs.append(("header_file_edits", {"lang": lang, "seed": shard_seed(seed, ID, f"h{lang}")}))
    files = corpus()
    stride = 30 if quick else 1
    for k, (lang, rel) in enumerate(files):
        jobs.append(("single_edits", {"lang": lang, "rel": rel, "stride": stride, "offset": (seed + k) % stride}))
    return jobs
