"""C19 - summary percentages and verdict are sane.

Domain : all quality profiles (e, v, h, u) with total <= N exhaustively (quick 60, thorough 110);
         Hypothesis profiles up to 10^9 (single category, all zero, near ties, tiny shares at the 0.001 % guard);
         Hypothesis multisets of function lengths fed through a real Codebase/Report.
Oracle : shown (easy+verbose, hard, unmaintainable) -- from Report.quality_profile_percentage() and parsed
         from print_summary in text and Markdown -- are integers in 0..100, sum to 100, each within 2 points of the
         exact share (rational arithmetic), hard/unmaintainable with share > 0.001 % never shown as 0;
         'refactoring necessary' is printed iff shown u > 0 or shown h > 20.
"""
from __future__ import annotations

import io
import re
from fractions import Fraction

from hypothesis import strategies as st

from vf.common import CaseTimeout, call_sut, run_given, shard_seed, watchdog

ID = "C19"
LEVEL = "exploration"
RULE = (
    "profiles (easy, verbose, hard, unmaintainable): every 4-tuple of non-negative integers with total <= bound "
    "enumerated once (quick 60, thorough 110) + Hypothesis tuples up to 1e9 + Hypothesis function-length multisets "
    "through real Codebases (1..4 files at several depths; aggregated once or twice, files added after the aggregation, written and read back); non-trivial = at least two non-zero categories; distinct = distinct tuple "
    "(enumeration has no repetition; generated cases are de-duplicated by digest)"
)
ASSUMPTIONS = [
    "the injected profile path replaces report.quality_profile exactly as tests/common/report/test_Report.py does",
    "LC_ALL=C.UTF-8 so that ':n' formatting adds no grouping characters",
    "an all-zero profile has no shares; only range, sum and verdict are checked for it",
]
EXHAUSTIVE = {"quick": "all profiles with total <= 60", "thorough": "all profiles with total <= 110"}
FLOOR = {"quick": 100000, "thorough": 1000000}

_REPORT = None


def _report():
    global _REPORT
    if _REPORT is None:
        from codelimit.common.Codebase import Codebase
        from codelimit.common.report.Report import Report

        _REPORT = Report(Codebase("/"))
    return _REPORT


def check_numbers(profile, ev, h, u):
    """The arithmetic clauses of the statement on the three shown figures. Returns (bucket, msg) or None."""
    total = sum(profile)
    for name, x in (("easy_verbose", ev), ("hard", h), ("unmaintainable", u)):
        if not isinstance(x, int) or isinstance(x, bool):
            return (f"not-integer:{name}", f"profile {profile}: {name} shown as {x!r}")
        if x < 0 or x > 100:
            return (f"out-of-range:{name}", f"profile {profile}: {name} shown as {x} %")
    if ev + h + u != 100:
        return ("sum", f"profile {profile}: shown {ev}+{h}+{u} != 100")
    if total > 0:
        parts = (("easy_verbose", ev, profile[0] + profile[1]), ("hard", h, profile[2]), ("unmaintainable", u, profile[3]))
        for name, shown, part in parts:
            if abs(shown * total - 100 * part) > 2 * total:
                return (
                    f"within2:{name}",
                    f"profile {profile}: {name} shown {shown} %, exact share {float(Fraction(100 * part, total)):.4f} %",
                )
        for name, shown, part in parts[1:]:
            if part * 100 * 1000 > total and shown == 0:
                return (f"zero-shown:{name}", f"profile {profile}: {name} holds {part}/{total} (> 0.001 %) but shows 0 %")
    return None


_PCT = re.compile(r"(-?\d+)\s*%")


def _render(report, fmt):
    from rich.console import Console

    from codelimit.common.report import format_markdown, format_text

    buf = io.StringIO()
    console = Console(file=buf, width=300, force_terminal=False, color_system=None, soft_wrap=True)
    if fmt == "text":
        format_text.print_summary(console, report)
    else:
        format_markdown.print_summary(console, report)
    return buf.getvalue()


_NEG = re.compile(r"\b(no|not|never|none|without)\b|n't\b|\bunnecessary\b", re.I)


def parse_summary(text, fmt):
    """-> (ev, h, u, verdict_bool | None) parsed from the rendered summary; raises ValueError if the three percentages are
    not there. The verdict sentence is recognised by the word 'necessary' (else 'refactor'), in any wording and case; a
    negation word makes it a 'not necessary' verdict. None when no such sentence can be recognised."""
    lines = [ln for ln in text.splitlines() if ln.strip()]
    is_verdict = lambda ln: re.search(r"necessary", ln, re.I) is not None  # noqa: E731
    row = None
    for ln in lines:
        if is_verdict(ln):
            continue
        nums = _PCT.findall(ln)
        if len(nums) == 3:
            row = [int(x) for x in nums]
            break
    if row is None:
        raise ValueError("no row with three percentages")
    verdict_lines = [ln for ln in lines if is_verdict(ln)]
    if not verdict_lines:
        verdict_lines = [ln for ln in lines if re.search(r"refactor", ln, re.I) and len(_PCT.findall(ln)) != 3]
    if len(verdict_lines) != 1:
        if len(verdict_lines) > 1:
            raise ValueError("more than one verdict line")
        return row[0], row[1], row[2], None
    verdict = _NEG.search(verdict_lines[0]) is None
    return row[0], row[1], row[2], verdict


def check_profile(profile, render: bool, via="inject", lengths=None, files=None, mode="once"):
    report = _report()
    if via == "inject":
        report.quality_profile = lambda p=list(profile): list(p)
    else:
        r = call_sut(_real_report, lengths, files, mode)
        if r[0] == "exc":
            return (f"real-report:{r[1]}", r[2])
        report = r[1]
        got = report.quality_profile()
        if list(got) != list(profile):
            return ("real-profile", f"lengths {lengths} in files {files} ({mode}): quality_profile {got} != {profile}")
    r = call_sut(report.quality_profile_percentage)
    if r[0] == "exc":
        return (r[1], f"profile {profile}: {r[2]}")
    try:
        easy, verbose, h, u = r[1]
    except Exception:
        return ("api-shape", f"profile {profile}: quality_profile_percentage returned {r[1]!r}")
    bad = check_numbers(profile, easy + verbose, h, u)
    if bad:
        return ("api:" + bad[0], bad[1])
    if render:
        for fmt in ("text", "markdown"):
            r = call_sut(_render, report, fmt)
            if r[0] == "exc":
                return (r[1], f"profile {profile} {fmt}: {r[2]}")
            try:
                sev, sh, su, verdict = parse_summary(r[1], fmt)
            except ValueError as e:
                return (f"unparseable:{fmt}", f"profile {profile}: {e}\n{r[1]}")
            bad = check_numbers(profile, sev, sh, su)
            if bad:
                return (f"{fmt}:" + bad[0], bad[1] + f"\n{r[1]}")
            expected = su > 0 or sh > 20
            if verdict is not None and verdict != expected:
                return (
                    f"verdict:{fmt}",
                    f"profile {profile}: shown ev={sev} h={sh} u={su}, 'refactoring necessary' printed={verdict}, "
                    f"expected {expected}\n{r[1]}",
                )
    return None


REAL_PATHS = ["a.py", "src/b.py", "src/core/engine/run.py", "lib/c.js", "lib/deep/er/d.ts"]
REAL_MODES = ["once", "once", "late", "queried-late", "queried-late", "twice", "roundtrip", "roundtrip-twice"]


def _real_report(lengths, files=None, mode="once"):
    """A report over a real Codebase. files: [[path, [lengths...]], ...] (default: everything in one file); mode: how the
    codebase came about - aggregated once (scan), some files added after the aggregation (with or without the figures having been asked for before), aggregated twice, or written
    and read back (report / findings), optionally aggregated again."""
    from codelimit.common.Codebase import Codebase
    from codelimit.common.Location import Location
    from codelimit.common.Measurement import Measurement
    from codelimit.common.SourceFileEntry import SourceFileEntry
    from codelimit.common.report.Report import Report
    from codelimit.common.report.ReportReader import ReportReader
    from codelimit.common.report.ReportWriter import ReportWriter

    files = files or [["a.py", list(lengths)]]
    cb = Codebase("/")
    late = files[len(files) // 2 :] if mode in ("late", "queried-late") and len(files) > 1 else []
    early = files[: len(files) - len(late)]

    def add(path, ls):
        ms = [Measurement(f"f{i}", Location(1 + 100 * i, 1), Location(2 + 100 * i, 1), v) for i, v in enumerate(ls)]
        lang = {"py": "Python", "js": "JavaScript", "ts": "TypeScript"}[path.rsplit(".", 1)[1]]
        cb.add_file(SourceFileEntry(path, "x", lang, sum(ls), ms))

    for path, ls in early:
        add(path, ls)
    cb.aggregate()
    report = Report(cb)
    if mode == "queried-late":
        # the summary figures are asked for once before the code base grows (a long-lived Codebase / Report object)
        report.quality_profile_percentage()
        cb.total_loc()
    for path, ls in late:
        add(path, ls)
    if mode == "twice":
        cb.aggregate()
    if mode.startswith("roundtrip"):
        report = ReportReader.from_json(ReportWriter(report).to_json())
        if mode.endswith("twice"):
            report.codebase.aggregate()
    return report


def run_case(case):
    return check_profile(tuple(case["profile"]), case.get("render", True), case.get("via", "inject"), case.get("lengths"), case.get("files"), case.get("mode", "once"))


def shrink_candidates(case):
    p = list(case["profile"])
    if case.get("via", "inject") != "inject":
        ls = case["lengths"]
        if case.get("files"):
            fs = case["files"]
            for i in range(len(fs)):
                for j in range(len(fs[i][1])):
                    g = [[p, list(v)] for p, v in fs]
                    del g[i][1][j]
                    yield _lengths_case([v for _, vs in g for v in vs], g, case.get("mode", "once"))
            return
        for i in range(len(ls)):
            ls2 = ls[:i] + ls[i + 1 :]
            yield _lengths_case(ls2)
        return
    for i in range(4):
        for nv in (0, p[i] // 2, p[i] - 1):
            if 0 <= nv < p[i]:
                q = p[:]
                q[i] = nv
                yield {"profile": q, "render": case.get("render", True)}


def _lengths_case(ls, files=None, mode="once"):
    prof = [0, 0, 0, 0]
    for v in ls:
        prof[0 if v <= 15 else 1 if v <= 30 else 2 if v <= 60 else 3] += v
    case = {"profile": prof, "via": "real", "lengths": list(ls), "render": True}
    if files is not None:
        case.update(files=files, mode=mode)
    return case


# --------------------------------------------------------------------------- shards


def enum_totals(col, totals, render_upto):
    """All (e, v, h, u) with e+v+h+u == T for T in totals. Rendering for T <= render_upto and for every new
    distinct percentage triple (rendering is re-checked whenever the API output has not been rendered yet)."""
    seen_triples = set()
    report = _report()
    hangs = 0
    for T in totals:
        n = 0
        nt = 0
        for e in range(T + 1):
            for v in range(T - e + 1):
                for h in range(T - e - v + 1):
                    u = T - e - v - h
                    prof = (e, v, h, u)
                    n += 1
                    nz = (e > 0) + (v > 0) + (h > 0) + (u > 0)
                    if nz >= 2:
                        nt += 1
                    render = T <= render_upto
                    if not render:
                        report.quality_profile = lambda p=prof: list(p)
                        try:
                            with watchdog(30):
                                pct = report.quality_profile_percentage()
                            key = (pct[0] + pct[1], pct[2], pct[3])
                        except Exception:
                            key = None
                        if key not in seen_triples:
                            seen_triples.add(key)
                            render = True
                    try:
                        with watchdog(30):
                            res = check_profile(prof, render)
                    except CaseTimeout:
                        res = ("hang", f"profile {prof}: no result within 30 s")
                    if render:
                        col.label("rendered")
                    if res is not None:
                        col.fail({"profile": list(prof), "render": True}, res[0], res[1])
                        if res[0] == "hang":
                            hangs += 1
                            if hangs >= 3:
                                col.inconclusive.append(f"enumeration of totals {totals} stopped after 3 hanging profiles (each is reported)")
                                col.bulk(n, nt)
                                return
                    elif nz >= 2 and n % 50021 == 1:
                        col.sample({"profile": list(prof)}, force=len(col.samples) < 4)
        col.bulk(n, nt)
        col.label(f"enumerated_totals")


@st.composite
def big_profiles(draw):
    shape = draw(st.sampled_from(["free", "single", "tie", "tiny", "guard", "thirds", "zero"]))
    big = st.integers(0, 10**9)
    if shape == "free":
        return [draw(big) for _ in range(4)], shape
    if shape == "zero":
        return [0, 0, 0, 0], shape
    if shape == "single":
        p = [0, 0, 0, 0]
        p[draw(st.integers(0, 3))] = draw(st.integers(1, 10**9))
        return p, shape
    if shape == "tie":
        base = draw(st.integers(1, 10**7))
        return [max(0, base + draw(st.integers(-2, 2))) if draw(st.booleans()) else 0 for _ in range(4)], shape
    if shape == "thirds":
        base = draw(st.integers(1, 10**6))
        k = draw(st.integers(0, 3))
        p = [base + draw(st.integers(0, 2)) for _ in range(4)]
        p[k] = draw(st.integers(0, 3))
        return p, shape
    if shape == "tiny":
        p = [draw(st.integers(0, 10**9)), draw(st.integers(0, 10**6)), draw(st.integers(0, 3)), draw(st.integers(0, 3))]
        return p, shape
    # guard: a hard/unmaintainable category right at the 0.001 % = 1/100000 boundary
    k = draw(st.integers(1, 2000))
    total = 100000 * k + draw(st.integers(-3, 3))
    small = k + draw(st.integers(-1, 1))
    which = draw(st.integers(2, 3))
    p = [0, 0, 0, 0]
    p[which] = max(0, small)
    rest = max(0, total - p[which])
    cut = draw(st.integers(0, rest))
    p[0], p[1] = cut, rest - cut
    return p, shape


def gen_big(col, seed, n):
    def body(v):
        prof, shape = v
        nz = sum(1 for x in prof if x > 0)
        col.eval({"profile": prof, "render": True}, nontrivial=nz >= 2, labels=[f"shape:{shape}"])

    run_given(body, big_profiles(), seed, n)


_LEN = st.one_of(
    st.integers(1, 200),
    st.sampled_from([1, 14, 15, 16, 17, 29, 30, 31, 32, 59, 60, 61, 62]),
)


def gen_real(col, seed, n):
    @st.composite
    def cases(draw):
        ls = draw(st.lists(_LEN, min_size=0, max_size=40))
        if draw(st.integers(0, 3)) == 0:
            return _lengths_case(ls)
        k = draw(st.integers(1, 4))
        paths = draw(st.permutations(REAL_PATHS))[:k]
        files = [[p, []] for p in paths]
        for v in ls:
            files[draw(st.integers(0, k - 1))][1].append(v)
        return _lengths_case([v for _, vs in files for v in vs], files, draw(st.sampled_from(REAL_MODES)))

    def body(case):
        nz = sum(1 for x in case["profile"] if x > 0)
        nfiles = sum(1 for _, vs in case.get("files", [["a.py", case["lengths"]]]) if vs)
        col.eval(case, nontrivial=nz >= 2, labels=["via:real-codebase", f"real-mode:{case.get('mode', 'once')}", "real-files:" + ("1" if nfiles <= 1 else "2+")])

    run_given(body, cases(), seed, n)


def plan(tier, seed):
    bound = 60 if tier == "quick" else 110
    render_upto = 10 if tier == "quick" else 14
    jobs = []
    nsh = 16
    # balance: cost of total T ~ T^3; deal totals out in descending order round-robin, snake order
    groups = [[] for _ in range(nsh)]
    order = list(range(bound, -1, -1))
    for i, T in enumerate(order):
        rnd, pos = divmod(i, nsh)
        groups[pos if rnd % 2 == 0 else nsh - 1 - pos].append(T)
    for g in groups:
        if g:
            jobs.append(("enum_totals", {"totals": g, "render_upto": render_upto}))
    nbig = 1200 if tier == "quick" else 24000
    nreal = 600 if tier == "quick" else 12000
    for i in range(4):
        jobs.append(("gen_big", {"seed": shard_seed(seed, ID, f"big{i}"), "n": nbig // 4}))
        jobs.append(("gen_real", {"seed": shard_seed(seed, ID, f"real{i}"), "n": nreal // 4}))
    return jobs
