"""C18 - rendered report, diff and findings show exactly the stored numbers.

Domain : (current, previous | None) pairs of reports over partially overlapping language sets (languages added /
         removed / unchanged), figures from 0 to 10^6, both formats; findings lists of 0..25 functions > 30 around the
         10-row cut-off, full / not full, with / without repository, both formats.
Oracle : the rendered overview (Console(width=400), no colour) is parsed with a tolerant row parser (cells 'n' or
         'n (+-d)'): per language and in total the five stored figures; languages in non-increasing LOC order; for
         languages present in both reports and for the totals an annotation is present iff current != previous and equals
         current - previous; text and Markdown agree. Findings: exactly the > 30 functions, non-increasing length,
         min(10, n) rows unless full, every shown >= every omitted, 'more rows' figure = n - 10 (absent otherwise).
"""
from __future__ import annotations

import io
import re

from collections import Counter

from hypothesis import strategies as st

from vf.common import call_sut, run_given, shard_seed

ID = "C18"
LEVEL = "exploration"
RULE = (
    "Hypothesis cases of two kinds - overview: per-language file lists for a current and an optional previous report "
    "(languages drawn so that some are shared, some added, some removed; figures 0..1e6); findings: 0..25 functions "
    "> 30 plus shorter ones (overloads: several functions of one name in a file), full/not full, repository yes/no. Every case is rendered in text and Markdown "
    "on a 400-column console; reports with 4..7-digit figures are also rendered as text at 80 / 100 / 120 columns, where every figure and annotation must still appear in full. "
    "`scan` itself is run on generated trees of 8..203 files and its printed overview compared with the totals it stored. Non-trivial = (overview) a previous report sharing >= 1 language with a changed figure, or (findings) more than "
    "10 findings; distinct by digest of the case"
)
ASSUMPTIONS = [
    "LC_ALL=C.UTF-8: ':n' formatting adds no grouping characters",
    "figures of a language present in only one of the two reports are left unconstrained, as in the statement",
    "function and file names are plain identifiers/paths (rich markup in names is outside the domain)",
    "reports are built from file entries through Codebase.add_file, so the stored totals are the tool's own",
]
FLOOR = {"quick": 300, "thorough": 4000}
LANGS = ["Python", "C", "C++", "C#", "Java", "JavaScript", "TypeScript"]
FIELDS = ["files", "functions", "lines_of_code", "hard_to_maintain", "unmaintainable"]


# --------------------------------------------------------------------------- building reports from plain data


def build_report(files, repo=False):
    """files: [{'path', 'language', 'lengths'}]"""
    from codelimit.common.Codebase import Codebase
    from codelimit.common.GithubRepository import GithubRepository
    from codelimit.common.Location import Location
    from codelimit.common.Measurement import Measurement
    from codelimit.common.SourceFileEntry import SourceFileEntry
    from codelimit.common.report.Report import Report

    cb = Codebase("/")
    for f in map(_expand, files):
        ms = []
        line = 1
        for i, v in enumerate(f["lengths"]):
            ms.append(Measurement(f.get("names", [f"fn{i}"] * (i + 1))[i] if "names" in f else f"fn{i}", Location(line, 1 + i % 7), Location(line + v - 1, 2), v))
            line += v + 1
        cb.add_file(SourceFileEntry(f["path"], "0" * 32, f["language"], sum(f["lengths"]), ms))
    cb.aggregate()
    return Report(cb, GithubRepository("own", "nam", branch="br") if repo else None)


def _expand(f):
    """'runs': [[length, count], ...] is the compact form of a long 'lengths' list (reports with thousands of functions)."""
    if "runs" in f:
        return dict(f, lengths=[v for v, c in f["runs"] for _ in range(c)])
    return f


def stored_totals(files):
    t = {}
    for f in map(_expand, files):
        d = t.setdefault(f["language"], dict.fromkeys(FIELDS, 0))
        d["files"] += 1
        d["functions"] += len(f["lengths"])
        d["lines_of_code"] += sum(f["lengths"])
        d["hard_to_maintain"] += sum(1 for v in f["lengths"] if 30 < v <= 60)
        d["unmaintainable"] += sum(1 for v in f["lengths"] if v > 60)
    return t


def render(fn, width=400):
    from rich.console import Console

    buf = io.StringIO()
    console = Console(file=buf, width=width, force_terminal=False, color_system=None, soft_wrap=True)
    fn(console)
    return buf.getvalue()


# --------------------------------------------------------------------------- tolerant parsers

_CELL = re.compile(r"^(-?\d+)(?:\s*[\(\[]?\s*([+-]\d+)\s*[\)\]]?)?$")  # 'n', 'n (+d)', also 'n [+d]' / 'n +d'


def _cell(text):
    m = _CELL.match(text.strip().strip("*").strip())
    if not m:
        raise ValueError(f"cell {text!r}")
    return int(m.group(1)), (int(m.group(2)) if m.group(2) is not None else None)


_BOX = re.compile("[\u2500-\u257f]")
_TOTAL_LABELS = {"", "total", "totals", "sum", "all"}


def _row_from_cells(cells):
    """cells of one output line -> (label, [5 figures]) when the line ends in exactly five figure cells, else None.
    Titles, rules, header rows, captions and footers are not rows; the parsers do not depend on box style or wording."""
    cells = [c.strip().strip("*").strip() for c in cells]
    while cells and cells[-1] == "":
        cells.pop()
    k = 0
    while k < len(cells) and _CELL.match(cells[len(cells) - 1 - k]):
        k += 1
    if k != 5:
        return None
    label = " ".join(c for c in cells[: len(cells) - 5] if c).strip()
    return label, [_cell(c) for c in cells[len(cells) - 5 :]]


def _collect_rows(lines_of_cells):
    rows, totals = [], None
    for cells in lines_of_cells:
        r = _row_from_cells(cells)
        if r is None:
            continue
        label, figs = r
        if label.lower() in _TOTAL_LABELS:
            if totals is not None:
                raise ValueError("two totals rows")
            totals = figs
        else:
            rows.append((label, figs))
    return rows, totals


def parse_overview_text(out):
    """Rows of the text overview, whatever the box style: box-drawing characters and '|' separate cells like wide gaps do."""
    return _collect_rows(re.split(r"\s{2,}", _BOX.sub("  ", ln).replace("|", "  ").strip()) for ln in out.splitlines())


def parse_overview_markdown(out):
    return _collect_rows([c for c in ln.strip().strip("|").split("|")] for ln in out.splitlines() if "|" in ln)


COLS = ["files", "functions", "lines_of_code", "hard_to_maintain", "unmaintainable"]  # column order of both renderers


def check_overview(case):
    from codelimit.common.report import format_markdown, format_text

    cur_files, prev_files = case["current"], case["previous"]
    r = call_sut(build_report, cur_files)
    if r[0] == "exc":
        return (f"build:{r[1]}", r[2])
    cur = r[1]
    prev = None
    if prev_files is not None:
        r = call_sut(build_report, prev_files)
        if r[0] == "exc":
            return (f"build:{r[1]}", r[2])
        prev = r[1]
    want = stored_totals(cur_files)
    wprev = stored_totals(prev_files) if prev_files is not None else None
    parsed = {}
    outputs = {}
    if case.get("via") == "command":
        r = _render_via_command(cur, prev)
        if isinstance(r, tuple):
            return r
        outputs = r
    for fmt, printer, parser in (("text", format_text.print_totals, parse_overview_text), ("markdown", format_markdown.print_totals, parse_overview_markdown)):
        if fmt in outputs:
            out = outputs[fmt]
        else:
            r = call_sut(render, lambda c: printer(c, cur, prev))
            if r[0] == "exc":
                return (f"render:{fmt}:{r[1]}", r[2])
            out = r[1]
        try:
            rows, totals = parser(out)
        except ValueError as e:
            return (f"unparseable:{fmt}", f"{e}\n{out}")
        parsed[fmt] = (rows, totals)
        names = [n for n, _ in rows]
        if sorted(names) != sorted(want):
            return (f"{fmt}:languages", f"rows for {names}, report holds {sorted(want)}\n{out}")
        locs = [want[n]["lines_of_code"] for n in names]
        if locs != sorted(locs, reverse=True):
            return (f"{fmt}:order", f"languages {names} not in non-increasing LOC order {locs}\n{out}")
        for n, cells in rows:
            for col, (val, delta) in zip(COLS, cells):
                if val != want[n][col]:
                    return (f"{fmt}:figure:{col}", f"{n}.{col} shown {val}, stored {want[n][col]}\n{out}")
                if wprev is not None and n in wprev:
                    d = want[n][col] - wprev[n][col]
                    if (delta or 0) != d or (delta is not None and d == 0) or (delta is None and d != 0):
                        return (f"{fmt}:delta:{col}", f"{n}.{col}: current {want[n][col]}, previous {wprev[n][col]}, annotation {delta!r}\n{out}")
                elif wprev is None and delta is not None:
                    return (f"{fmt}:delta-without-previous", f"{n}.{col}: annotation {delta!r} without a comparison report\n{out}")
        if len(want) > 1 and totals is None:
            return (f"{fmt}:no-totals-row", f"{len(want)} languages but no totals row\n{out}")
        if totals is not None:
            for col, (val, delta) in zip(COLS, totals):
                tw = sum(t[col] for t in want.values())
                if val != tw:
                    return (f"{fmt}:total:{col}", f"total {col} shown {val}, stored {tw}\n{out}")
                if wprev is not None:
                    d = tw - sum(t[col] for t in wprev.values())
                    if (delta or 0) != d or (delta is not None and d == 0):
                        return (f"{fmt}:total-delta:{col}", f"total {col}: current {tw}, previous {tw - d}, annotation {delta!r}\n{out}")
                elif delta is not None:
                    return (f"{fmt}:delta-without-previous", f"total {col}: annotation {delta!r} without a comparison report\n{out}")
    # identical annotations in both formats (for shared languages and totals)
    tr, tt = parsed["text"]
    mr, mt = parsed["markdown"]
    shared = set(want) & set(wprev or {})
    if {n: c for n, c in tr if n in shared} != {n: c for n, c in mr if n in shared} or (wprev is not None and tt != mt):
        return ("text-markdown-differ", f"text {tr} {tt}\nmarkdown {mr} {mt}")
    return None


_FIG = re.compile(r"\([+-]\d+\)|\d+")


def check_overview_narrow(case):
    """The text overview on a console as narrow as a pipe gives it (80 columns), for reports whose figures are wide: a
    cell may be folded over several lines, but every stored figure and every annotation must still be there in full."""
    from codelimit.common.report import format_text

    r = call_sut(build_report, case["current"])
    if r[0] == "exc":
        return (f"build:{r[1]}", r[2])
    cur = r[1]
    prev = None
    if case["previous"] is not None:
        r = call_sut(build_report, case["previous"])
        if r[0] == "exc":
            return (f"build:{r[1]}", r[2])
        prev = r[1]
    want = stored_totals(case["current"])
    wprev = stored_totals(case["previous"]) if case["previous"] is not None else None
    expect = Counter()
    for n, t in want.items():
        for col in COLS:
            expect[str(t[col])] += 1
            if wprev is not None and n in wprev and t[col] != wprev[n][col]:
                expect[f"({t[col] - wprev[n][col]:+d})"] += 1
    if len(want) > 1:
        for col in COLS:
            tw = sum(t[col] for t in want.values())
            expect[str(tw)] += 1
            if wprev is not None and tw != sum(t[col] for t in wprev.values()):
                expect[f"({tw - sum(t[col] for t in wprev.values()):+d})"] += 1
    for width in case["widths"]:
        r = call_sut(render, lambda c: format_text.print_totals(c, cur, prev), width)
        if r[0] == "exc":
            return (f"render:text@{width}:{r[1]}", r[2])
        out = r[1]
        found = Counter(_FIG.findall(out))
        missing = expect - found
        if missing:
            return (f"text@narrow:figure-lost", f"at width {width} the figures / annotations {dict(missing)} are not shown in full\n{out}")
        for n in want:
            if n not in out:
                return (f"text@narrow:language-lost", f"at width {width} the row label {n!r} is not shown\n{out}")
    return None


def check_scan_overview(case):
    """The overview that `scan` prints while / after scanning shows the totals the scan stores in its report - also for
    code bases of more than a hundred files."""
    import json as _json

    from vf.harness import cli, tree

    files = {}
    for i in range(case["nfiles"]):
        lang, ext = (("Python", "py"), ("JavaScript", "js"), ("C", "c"))[i % 3]
        ls = [3, 31 + i % 5] if i % 2 else [2, 61 + i % 3, 4]
        files[f"pkg{i % 7}/m{i:03d}.{ext}"] = tree.flat_file(lang, ls)
    with tree.temp_tree(files) as root:
        res = cli.run_scan(root, ".")
        if res.exc:
            return (f"scan:{res.exc[0]}", res.exc[1])
        try:
            stored = _json.loads((root / ".codelimit_cache" / "codelimit.json").read_text())["codebase"]["totals"]
        except Exception as e:  # noqa: BLE001
            return ("scan:no-report", f"{type(e).__name__}: {e}")
    rows, totals = parse_overview_text(res.out)
    shown = {name: {c: v[0] for c, v in zip(COLS, cells)} for name, cells in rows}
    want = {k: {c: v[c] for c in COLS} for k, v in stored.items()}
    if shown != want:
        return ("scan-overview-differs-from-report", f"{case['nfiles']} files: overview printed by scan {shown} vs totals stored in the report {want}")
    if totals is not None:
        tw = [sum(v[c] for v in want.values()) for c in COLS]
        if [t[0] for t in totals] != tw:
            return ("scan-overview-totals-differ-from-report", f"{case['nfiles']} files: totals row {[t[0] for t in totals]} vs stored {tw}")
    return None


def scan_overviews(col):
    for n in (8, 100, 101, 107, 118, 203):
        col.eval({"kind": "scan-overview", "nfiles": n}, nontrivial=n > 100, labels=["scan-overview", f"files:{n}"])


def _render_via_command(cur, prev):
    """The same overview through report_command: reports written to disk, read back by the command."""
    from codelimit.common.report.ReportWriter import ReportWriter

    from vf.harness import cli, tree

    files = {".codelimit_cache/codelimit.json": ReportWriter(cur).to_json()}
    if prev is not None:
        files["previous.json"] = ReportWriter(prev, False).to_json()
    outputs = {}
    with tree.temp_tree(files) as root:
        for fmt in ("text", "markdown"):
            res = cli.run_report(root, ".", fmt, "previous.json" if prev is not None else None)
            if res.exc:
                return (f"report_command:{fmt}:{res.exc[0]}", res.exc[1])
            if res.code != 0:
                return (f"report_command:{fmt}:exit", f"report_command exit {res.code}\n{res.out}")
            cut = res.out.find("### Summary" if fmt == "markdown" else "Summary")
            outputs[fmt] = res.out[:cut] if cut >= 0 else res.out
    return outputs


# --------------------------------------------------------------------------- findings

_TEXT_FINDING = re.compile(r"^(?P<path>\S+):(?P<line>\d+):(?P<col>\d+): (?P<len>\d+) (?P<sym>\S+) (?P<name>\S+)$")
_MORE = re.compile(r"^(\d+) more rows")


_MORE_ANY = re.compile(r"(\d+)\s+(?:more|further|additional|other|omitted|hidden)\b|(\d+)\s+\w+\s+(?:omitted|not shown|hidden|truncated|left out)", re.I)


def _more(line):
    m = _MORE_ANY.search(line)
    return int(m.group(1) or m.group(2)) if m else None


def parse_findings_text(out):
    """Finding rows ('path:line:col: length symbol name') and the figure of the omitted-rows note; headings, captions and
    other lines are not rows."""
    shown, more = [], None
    for ln in out.splitlines():
        s = _BOX.sub(" ", ln).strip()
        if not s:
            continue
        m = _TEXT_FINDING.match(s)
        if m:
            shown.append((m.group("path"), m.group("name"), int(m.group("len"))))
            continue
        k = _more(s)
        if k is not None:
            if more is not None:
                raise ValueError("two omitted-rows notes")
            more = k
    return shown, more


def parse_findings_markdown(out, repo):
    shown, more = [], None
    for ln in out.splitlines():
        s = ln.strip()
        if not s:
            continue
        if "|" not in s:
            k = _more(s)
            if k is not None:
                if more is not None:
                    raise ValueError("two omitted-rows notes")
                more = k
            continue
        cells = [c.strip() for c in s.strip("|").split("|")]
        if repo:
            m2 = re.match(r"^(\S+) \[(\S+)\]\((\S+)\)$", cells[0]) if len(cells) == 3 else None
            if m2 and cells[1].isdigit():
                shown.append((cells[2], m2.group(2), int(cells[1])))
        elif len(cells) == 5 and cells[1].isdigit() and cells[2].isdigit() and cells[3].isdigit() and " " in cells[4]:
            shown.append((cells[0], cells[4].split(" ", 1)[1], int(cells[3])))
    return shown, more


def check_findings(case):
    from codelimit.common.report import format_markdown, format_text

    files = case["files"]
    full, repo = case["full"], case["repo"]
    r = call_sut(build_report, files, repo)
    if r[0] == "exc":
        return (f"build:{r[1]}", r[2])
    report = r[1]
    allf = [(f["path"], f["names"][i] if "names" in f else f"fn{i}", v) for f in files for i, v in enumerate(f["lengths"])]
    want = sorted([t for t in allf if t[2] > 30], key=lambda t: -t[2])
    n = len(want)
    nshow = n if full else min(10, n)
    outputs = {}
    if case.get("via") == "command":
        from codelimit.common.Configuration import Configuration
        from codelimit.common.report.ReportWriter import ReportWriter

        from vf.harness import cli, tree

        with tree.temp_tree({".codelimit_cache/codelimit.json": ReportWriter(report).to_json()}) as root:
            for fmt in ("text", "markdown"):
                res = cli.run_findings(root, ".", full, fmt)
                if res.exc:
                    return (f"findings_command:{fmt}:{res.exc[0]}", res.exc[1])
                if res.code != 0:
                    return (f"findings_command:{fmt}:exit", f"findings_command exit {res.code}\n{res.out}")
                outputs[fmt] = res.out
    for fmt in ("text", "markdown"):
        if fmt in outputs:
            out = outputs[fmt]
        else:
            if fmt == "text":
                r = call_sut(render, lambda c: format_text.print_findings(c, report, full))
            else:
                r = call_sut(render, lambda c: format_markdown.print_findings(report, c, full))
            if r[0] == "exc":
                return (f"render:{fmt}:{r[1]}", r[2])
            out = r[1]
        try:
            shown, more = parse_findings_text(out) if fmt == "text" else parse_findings_markdown(out, repo)
        except ValueError as e:
            return (f"unparseable:{fmt}", f"{e}\n{out}")
        if len(shown) != nshow:
            return (f"{fmt}:row-count", f"{len(shown)} rows shown, expected {nshow} (findings {n}, full={full})\n{out}")
        lens = [t[2] for t in shown]
        if lens != sorted(lens, reverse=True):
            return (f"{fmt}:order", f"lengths {lens} not longest first\n{out}")
        if Counter(shown) - Counter(want):  # as multisets: overloads give several findings of one name (and length) in a file
            return (f"{fmt}:not-a-finding", f"shown {shown} are not all distinct functions > 30 of the report {want}\n{out}")
        if sorted(lens, reverse=True) != [t[2] for t in want[:nshow]]:
            return (f"{fmt}:not-the-longest", f"shown lengths {lens}, the {nshow} longest are {[t[2] for t in want[:nshow]]}\n{out}")
        want_more = n - 10 if (not full and n > 10) else None
        if more != want_more:
            return (f"{fmt}:more-rows", f"'more rows' figure {more!r}, expected {want_more!r} (findings {n}, full={full})\n{out}")
    return None


def run_case(case):
    if case["kind"] == "overview":
        return check_overview(case)
    if case["kind"] == "narrow":
        return check_overview_narrow(case)
    if case["kind"] == "scan-overview":
        return check_scan_overview(case)
    return check_findings(case)


def shrink_candidates(case):
    if case["kind"] == "scan-overview":
        return
    if case["kind"] == "narrow":
        for key in ("current", "previous"):
            fs = case[key]
            if fs is None:
                continue
            for i in range(len(fs)):
                yield dict(case, **{key: fs[:i] + fs[i + 1 :]})
        for w in case["widths"]:
            if len(case["widths"]) > 1:
                yield dict(case, widths=[w])
    elif case["kind"] == "overview":
        for key in ("current", "previous"):
            fs = case[key]
            if fs is None:
                continue
            for i in range(len(fs)):
                yield dict(case, **{key: fs[:i] + fs[i + 1 :]})
            for i, f in enumerate(fs):
                for j in range(len(f["lengths"])):
                    yield dict(case, **{key: fs[:i] + [dict(f, lengths=f["lengths"][:j] + f["lengths"][j + 1 :])] + fs[i + 1 :]})
    else:
        fs = case["files"]
        for i, f in enumerate(fs):
            for j in range(len(f["lengths"])):
                yield dict(case, files=fs[:i] + [dict(f, lengths=f["lengths"][:j] + f["lengths"][j + 1 :])] + fs[i + 1 :])


# --------------------------------------------------------------------------- generators

_len = st.one_of(st.sampled_from([1, 15, 16, 30, 31, 60, 61, 100]), st.integers(1, 90), st.integers(1, 10**6))


@st.composite
def file_lists(draw, langs, tag):
    out = []
    for k, lang in enumerate(langs):
        for i in range(draw(st.integers(1, 3))):
            out.append({"path": f"{tag}{k}_{i}.x", "language": lang, "lengths": draw(st.lists(_len, min_size=0, max_size=5))})
    return draw(st.permutations(out)) if out else out


@st.composite
def overview_cases(draw):
    pool = draw(st.permutations(LANGS))
    n_shared = draw(st.integers(0, 3))
    n_cur = draw(st.integers(0, 2))
    n_prev = draw(st.integers(0, 2))
    shared = list(pool[:n_shared])
    only_cur = list(pool[n_shared : n_shared + n_cur])
    only_prev = list(pool[n_shared + n_cur : n_shared + n_cur + n_prev])
    cur = draw(file_lists(shared + only_cur, "c"))
    has_prev = draw(st.sampled_from([True, True, True, False]))
    prev = None
    if has_prev:
        mode = draw(st.sampled_from(["fresh", "same", "tweak", "shift", "shift"]))
        if mode == "same":
            prev = [dict(f) for f in cur if f["language"] in shared] + draw(file_lists(only_prev, "p"))
        elif mode == "shift":
            # lines moved between two functions of a file: files, functions and lines of code stay the same, only the
            # hard-to-maintain / unmaintainable counters (may) change
            prev = []
            for f in cur:
                if f["language"] in shared:
                    ls = list(f["lengths"])
                    if len(ls) >= 2:
                        i = draw(st.integers(0, len(ls) - 1))
                        j = draw(st.integers(0, len(ls) - 1))
                        k = draw(st.sampled_from([1, 1, 2, 31]))
                        if i != j and ls[i] > k:
                            ls[i] -= k
                            ls[j] += k
                    prev.append(dict(f, lengths=ls))
            prev += draw(file_lists(only_prev, "p"))
        elif mode == "tweak":
            prev = []
            for f in cur:
                if f["language"] in shared:
                    ls = list(f["lengths"])
                    if ls and draw(st.booleans()):
                        ls[draw(st.integers(0, len(ls) - 1))] = draw(_len)
                    prev.append(dict(f, lengths=ls))
            prev += draw(file_lists(only_prev, "p"))
        else:
            prev = draw(file_lists(shared + only_prev, "p"))
    via = draw(st.sampled_from(["api"] * 7 + ["command"]))
    return {"kind": "overview", "current": list(cur), "previous": None if prev is None else list(prev), "via": via}


@st.composite
def findings_cases(draw):
    nfind = draw(st.one_of(st.integers(0, 25), st.sampled_from([9, 10, 11, 12])))
    big = [draw(st.one_of(st.integers(31, 200), st.sampled_from([31, 60, 61]))) for _ in range(nfind)]
    small = [draw(st.integers(1, 30)) for _ in range(draw(st.integers(0, 6)))]
    allv = draw(st.permutations(big + small))
    nfiles = draw(st.integers(1, 4))
    files = [{"path": f"d{i}/f{i}.py" if i % 2 else f"f{i}.js", "language": "Python" if i % 2 else "JavaScript", "lengths": []} for i in range(nfiles)]
    for v in allv:
        files[draw(st.integers(0, nfiles - 1))]["lengths"].append(v)
    if draw(st.booleans()):
        # overloads: a file may hold several functions of one name
        for f in files:
            f["names"] = [draw(st.sampled_from(["area", "scale", "run"])) for _ in f["lengths"]]
    return {"kind": "findings", "files": files, "full": draw(st.booleans()), "repo": draw(st.booleans()), "via": draw(st.sampled_from(["api"] * 7 + ["command"]))}


@st.composite
def narrow_cases(draw):
    """Reports with 4..7-digit figures in every column but 'files', rendered at 80 / 100 / 120 columns."""
    langs = draw(st.permutations(LANGS))[: draw(st.integers(1, 4))]

    def big(tag):
        out = []
        for k, lang in enumerate(langs):
            runs = [[draw(st.integers(1, 30)), draw(st.integers(500, 4000))], [draw(st.integers(31, 60)), draw(st.integers(1000, 4000))],
                    [draw(st.integers(61, 400)), draw(st.integers(1000, 4000))]]
            out.append({"path": f"{tag}{k}.x", "language": lang, "runs": runs})
        return out

    cur = big("c")
    prev = big("p") if draw(st.sampled_from([True, True, True, False])) else None
    return {"kind": "narrow", "current": cur, "previous": prev, "widths": [80, 100, 120]}


def gen_narrow(col, seed, n):
    def body(case):
        col.eval(case, nontrivial=case["previous"] is not None, labels=["overview-narrow", "with-previous" if case["previous"] is not None else "no-previous"])

    run_given(body, narrow_cases(), seed, n)


def _changed(case):
    if case["previous"] is None:
        return False
    a, b = stored_totals(case["current"]), stored_totals(case["previous"])
    return any(a[k] != b[k] for k in set(a) & set(b))


def gen_overview(col, seed, n):
    def body(case):
        cur, prev = stored_totals(case["current"]), stored_totals(case["previous"]) if case["previous"] is not None else None
        labels = ["overview", f"languages:{min(len(cur), 4)}", "with-previous" if prev is not None else "no-previous", f"via:{case['via']}"]
        if prev is not None:
            if set(prev) - set(cur):
                labels.append("language-removed")
            if set(cur) - set(prev):
                labels.append("language-added")
            if any(cur[k] == prev[k] for k in set(cur) & set(prev)):
                labels.append("shared-unchanged")
        col.eval(case, nontrivial=_changed(case), labels=labels)

    run_given(body, overview_cases(), seed, n)


def gen_findings(col, seed, n):
    def body(case):
        nf = sum(1 for f in case["files"] for v in f["lengths"] if v > 30)
        labels = ["findings", "full" if case["full"] else "not-full", "repo" if case["repo"] else "no-repo", "n>10" if nf > 10 else "n==10" if nf == 10 else "n<10", f"via:{case.get('via', 'api')}"]
        col.eval(case, nontrivial=nf > 10, labels=labels)

    run_given(body, findings_cases(), seed, n)


def plan(tier, seed):
    total = 2400 if tier == "quick" else 48000
    jobs = []
    for i in range(8):
        jobs.append(("gen_overview", {"seed": shard_seed(seed, ID, f"o{i}"), "n": total // 16}))
        jobs.append(("gen_findings", {"seed": shard_seed(seed, ID, f"f{i}"), "n": total // 16}))
    jobs.append(("scan_overviews", {}))
    for i in range(4):
        jobs.append(("gen_narrow", {"seed": shard_seed(seed, ID, f"n{i}"), "n": 5 if tier == "quick" else 60}))
    return jobs
