"""C13 - the pattern engine implements regular-expression semantics.

Domain : all pattern trees over atoms a b c with cat/alt/opt/star/plus up to a size bound x all sequences over {a,b,c}
         up to a length bound (exhaustive); Hypothesis trees to ~15 nodes x sequences to length 20.
Oracle : Brzozowski-derivative reference (vf/ref/regex.py, cross-checked against Python's re on every run):
         match(p, s) is not None  <=>  s in L(p);  nfa_match  <=>  the same;
         starts_with -> end k = least k >= 1 with s[:k] in L(p) (tokens == s[:k]), else None;
         building terminates (no exception, watchdog) for every tree.
"""
from __future__ import annotations

import re

from hypothesis import strategies as st

from vf.common import CaseTimeout, call_sut, run_given, shard_seed, watchdog
from vf.gen import patterns as P
from vf.ref import regex as R

ID = "C13"
LEVEL = "exploration"
RULE = (
    "pattern trees over atoms a,b,c with cat/alt/opt/star/plus enumerated by node count (quick <= 5: 1731 trees, "
    "thorough <= 6: 10560) x every sequence over {a,b,c} up to length 5 (quick) / 7 (thorough), each pair evaluated "
    "through match, nfa_match and starts_with; plus a 'spine' family (first item followed by 2..4 small items, the shape "
    "of the shipped header patterns; quick: a quarter of the 2- and 3-item spines) compiled with the state counter at 1; "
    "plus Hypothesis trees (<= 8 leaves) x sequences (<= 20). "
    "Non-trivial = the tree nests a repetition/optional inside a repetition or uses >= 3 distinct operators; "
    "distinct by (tree, sequence) - enumeration visits each pair once, generated pairs are de-duplicated by digest"
)
ASSUMPTIONS = [
    "atoms are supplied in three ways, rotating over the enumeration: plain strings (wrapped by the engine into Identity predicates), a fresh equal predicate object at every occurrence, one predicate object per letter; "
    "in half of the patterns identical sub-patterns are one shared operator object (plus a family in which a sub-pattern occurs two or three times)",
    "the engine's global state counter (State._id) is set to drawn values, including 1 as the project's own tests do, before a pattern is built",
    "for sequences longer than 3 the NFA/DFA of a tree is built once and reused across sequences "
    "(matcher.expression_to_nfa / nfa_to_dfa memoised per tree); sequences up to length 3 go through the unmodified entry points",
]
EXHAUSTIVE = {
    "quick": "all trees with <= 5 nodes x all sequences over {a,b,c} of length <= 5",
    "thorough": "all trees with <= 6 nodes x all sequences over {a,b,c} of length <= 7",
}
FLOOR = {"quick": 100000, "thorough": 1000000}


def _entry_points():
    from codelimit.common.gsm import matcher

    return matcher


class BuildMemo:
    """Memoise automaton construction for one expression object while the real match loops run."""

    def __enter__(self):
        m = _entry_points()
        self.m = m
        self.orig = (m.expression_to_nfa, m.nfa_to_dfa)
        nfa_cache, dfa_cache = {}, {}
        o_nfa, o_dfa = self.orig

        def e2n(expr):
            k = id(expr)
            if k not in nfa_cache:
                nfa_cache[k] = (expr, o_nfa(expr))
            return nfa_cache[k][1]

        def n2d(nfa):
            k = id(nfa)
            if k not in dfa_cache:
                dfa_cache[k] = (nfa, o_dfa(nfa))
            return dfa_cache[k][1]

        m.expression_to_nfa, m.nfa_to_dfa = e2n, n2d
        return self

    def __exit__(self, *a):
        self.m.expression_to_nfa, self.m.nfa_to_dfa = self.orig


def check_pair(tree, expr, seq, m):
    """-> None | (bucket, message)."""
    seq = list(seq)
    want = R.matches(tree, seq)
    r = call_sut(m.match, expr, seq)
    if r[0] == "exc":
        return (f"match:{r[1]}", _msg(tree, seq, r[2]))
    if (r[1] is not None) != want:
        return ("match:" + ("false-reject" if want else "false-accept"), _msg(tree, seq, f"match -> {r[1]!r}, in language: {want}"))
    r = call_sut(m.nfa_match, expr, seq)
    if r[0] == "exc":
        return (f"nfa_match:{r[1]}", _msg(tree, seq, r[2]))
    if bool(r[1]) != want:
        return ("nfa_match:" + ("false-reject" if want else "false-accept"), _msg(tree, seq, f"nfa_match -> {r[1]!r}, in language: {want}"))
    k = R.shortest_prefix(tree, seq)
    r = call_sut(m.starts_with, expr, seq)
    if r[0] == "exc":
        return (f"starts_with:{r[1]}", _msg(tree, seq, r[2]))
    got = r[1]
    if k is None:
        if got is not None:
            return ("starts_with:false-accept", _msg(tree, seq, f"starts_with -> end {got.end}, no non-empty prefix is in the language"))
    else:
        if got is None:
            return ("starts_with:false-reject", _msg(tree, seq, f"starts_with -> None, shortest matching prefix has length {k}"))
        if got.end != k or got.start != 0:
            return ("starts_with:wrong-end", _msg(tree, seq, f"starts_with -> ({got.start},{got.end}), shortest matching prefix has length {k}"))
        if list(got.tokens) != seq[:k]:
            return ("starts_with:wrong-tokens", _msg(tree, seq, f"starts_with tokens {got.tokens!r} != {seq[:k]!r}"))
    return None


def _msg(tree, seq, what):
    return f"pattern {P.show(tree)}  sequence {''.join(seq)!r}: {what}"


def reset_state_counter(value=1):
    """State._id is process-global state of the engine (the project's own tests reset it to 1); results must not depend on it."""
    from codelimit.common.gsm.automata.State import State

    State._id = value


def run_case(case):
    tree = P.from_json(case["tree"])
    if case.get("state_id") is not None:
        reset_state_counter(case["state_id"])
    r = call_sut(P.to_expr, tree, *(case.get("mode") or ("plain", False)))
    if r[0] == "exc":
        return (f"build:{r[1]}", _msg(tree, case["seq"], r[2]))
    return check_pair(tree, r[1], list(case["seq"]), _entry_points())


def shrink_candidates(case):
    tree = P.from_json(case["tree"])
    seq = case["seq"]
    for i in range(len(seq)):
        yield dict(case, seq=seq[:i] + seq[i + 1 :])
    for sub in P.subtrees(tree):
        yield dict(case, tree=P.to_json(sub))


# --------------------------------------------------------------------------- shards


def selftest_reference(max_size=4, max_len=4):
    """The reference itself is cross-checked against Python's re before it is trusted (harness error if off)."""
    seqs = ["".join(s) for s in P.sequences(P.ATOMS, max_len)]
    n = 0
    for size in range(1, max_size + 1):
        for tree in P.trees_of_size(size):
            rx = re.compile(R.to_python_re(tree))
            for s in seqs:
                if (rx.fullmatch(s) is not None) != R.matches(tree, s):
                    raise AssertionError(f"reference regex semantics disagree with re on {P.show(tree)} / {s!r}")
                n += 1
    return n


def enum_trees(col, sizes, part, nparts, max_len, selftest=False):
    if selftest:
        col.notes["reference_crosschecked_against_re_pairs"] = selftest_reference()
    m = _entry_points()
    short = [s for s in P.sequences(P.ATOMS, min(3, max_len))]
    long = [s for s in P.sequences(P.ATOMS, max_len) if len(s) > 3]
    idx = 0
    hangs = 0
    for size in sizes:
        for tree in P.trees_of_size(size):
            idx += 1
            if idx % nparts != part:
                continue
            nt = P.nontrivial(tree)
            sid = 1 if idx % 2 else 1 + idx % 97
            reset_state_counter(sid)
            mode = P.MODES[(idx // nparts) % len(P.MODES)]  # how atoms are supplied / whether sub-patterns are shared objects
            r = call_sut(P.to_expr, tree, *mode)
            if r[0] == "exc":
                col.fail({"tree": P.to_json(tree), "seq": "", "mode": list(mode), "state_id": sid}, f"build:{r[1]}", r[2])
                col.bulk(1, 1 if nt else 0)
                continue
            col.label(f"atoms:{mode[0]}" + ("+shared-operators" if mode[1] and P.has_repeated_subpattern(tree) else "") + ("+bare-operands" if mode[2] else ""))
            expr = r[1]
            failed = False
            try:
                with watchdog(120):
                    for s in short:
                        res = check_pair(tree, expr, s, m)
                        if res:
                            col.fail({"tree": P.to_json(tree), "seq": "".join(s), "mode": list(mode), "state_id": sid}, res[0], res[1])
                            failed = True
                            break
                    if not failed and long:
                        with BuildMemo():
                            for s in long:
                                res = check_pair(tree, expr, s, m)
                                if res:
                                    col.fail({"tree": P.to_json(tree), "seq": "".join(s), "mode": list(mode), "state_id": sid}, res[0], res[1])
                                    break
            except CaseTimeout:
                col.fail({"tree": P.to_json(tree), "seq": ""}, "hang", f"pattern {P.show(tree)}: building / matching did not finish within 120 s")
                hangs += 1
                if hangs >= 3:
                    col.inconclusive.append("enumeration stopped after 3 hanging patterns (each is reported)")
                    return
            n = len(short) + len(long)
            col.bulk(n, n if nt else 0)
            col.label(f"size:{size}")
            if nt:
                col.label("nontrivial_trees")
                if idx % 997 == 0:
                    col.sample({"tree": P.show(tree), "sequences": f"all {n} sequences up to length {max_len}"}, force=len(col.samples) < 3)


def spine_trees(ks, stride, offset):
    """Header-like patterns: a first item followed by a concatenation of k small items (the shape of every shipped
    language pattern), each compiled with the global state counter at 1."""
    from itertools import product

    atoms = [("sym", a) for a in P.ATOMS]
    small = atoms + [(op, x) for op in ("opt", "star", "plus") for x in atoms] + [("alt", x, y) for x in atoms for y in atoms if x != y] + [("star", ("opt", x)) for x in atoms]
    firsts = atoms + [(op, x) for op in ("opt", "star", "plus") for x in atoms]
    i = 0
    for k in ks:
        for first in firsts:
            for rest in product(small, repeat=k):
                i += 1
                if i % stride != offset:
                    continue
                items = [first] + list(rest)
                t = items[-1]
                for it in reversed(items[:-1]):
                    t = ("cat", it, t)
                yield t


def enum_spines(col, ks, stride, offset, max_len):
    m = _entry_points()
    seqs = list(P.sequences(P.ATOMS, max_len))
    n_trees = 0
    for tree in spine_trees(ks, stride, offset):
        n_trees += 1
        reset_state_counter(1)
        mode = P.MODES[n_trees % len(P.MODES)]
        r = call_sut(P.to_expr, tree, *mode)
        if r[0] == "exc":
            col.fail({"tree": P.to_json(tree), "seq": "", "state_id": 1, "mode": list(mode)}, f"build:{r[1]}", r[2])
            continue
        try:
            with watchdog(120), BuildMemo():
                for s in seqs:
                    res = check_pair(tree, r[1], s, m)
                    if res:
                        col.fail({"tree": P.to_json(tree), "seq": "".join(s), "state_id": 1, "mode": list(mode)}, res[0], res[1])
                        break
        except CaseTimeout:
            col.fail({"tree": P.to_json(tree), "seq": "", "state_id": 1}, "hang", f"pattern {P.show(tree)}: no result within 120 s")
        nt = P.nontrivial(tree)
        col.bulk(len(seqs), len(seqs) if nt else 0)
        if nt and n_trees % 499 == 0:
            col.sample({"tree": P.show(tree), "state_counter": 1, "sequences": f"all {len(seqs)} sequences up to length {max_len}"})
    col.label("spine-family")


def enum_family(col, part, nparts, max_len):
    """match / nfa_match / starts_with over the nullable-repetition family (patterns of up to 7 nodes)."""
    m = _entry_points()
    seqs = list(P.sequences(P.ATOMS, max_len))
    fam = [(t, None) for t in P.nullable_repetition_family()] + [(t, (a, True)) for t in P.shared_family() for a in ("plain", "fresh", "one")]
    for i, (tree, mode) in enumerate(fam):
        if i % nparts != part:
            continue
        reset_state_counter(1)
        if mode is None:
            mode = P.MODES[(i // nparts) % len(P.MODES)]
        else:
            col.label("shared-operator-family")
        r = call_sut(P.to_expr, tree, *mode)
        if r[0] == "exc":
            col.fail({"tree": P.to_json(tree), "seq": "", "mode": list(mode)}, f"build:{r[1]}", r[2])
            continue
        try:
            with watchdog(120), BuildMemo():
                for s in seqs:
                    res = check_pair(tree, r[1], s, m)
                    if res:
                        col.fail({"tree": P.to_json(tree), "seq": "".join(s), "mode": list(mode), "state_id": 1}, res[0], res[1])
                        break
        except CaseTimeout:
            col.fail({"tree": P.to_json(tree), "seq": ""}, "hang", f"pattern {P.show(tree)}: no result within 120 s")
        col.bulk(len(seqs), len(seqs))
    col.label("nullable-repetition-family")


def gen_random(col, seed, n):
    strat = st.tuples(P.tree_strategy(8), st.text(alphabet="abc", max_size=20), st.sampled_from([1, 1, 1, 2, 5, 10, 11, 99, 100, 1234]), st.sampled_from(P.MODES))

    def body(v):
        tree, seq, sid, mode = v
        labels = [f"rnd_size:{min(R.size(tree) // 4 * 4, 16)}"]
        if R.matches(tree, seq):
            labels.append("rnd_in_language")
        labels.append(f"rnd_atoms:{mode[0]}" + ("+shared" if mode[1] else ""))
        col.eval({"tree": P.to_json(tree), "seq": seq, "state_id": sid, "mode": list(mode)}, nontrivial=P.nontrivial(tree), labels=labels + [f"state_counter:{'1' if sid == 1 else 'other'}"])

    run_given(body, strat, seed, n)


def plan(tier, seed):
    max_size, max_len = (5, 5) if tier == "quick" else (6, 7)
    nparts = 16 if tier == "quick" else 48
    jobs = [
        ("enum_trees", {"sizes": list(range(1, max_size + 1)), "part": p, "nparts": nparts, "max_len": max_len, "selftest": p == 0})
        for p in range(nparts)
    ]
    if tier == "quick":
        for o in range(8):
            jobs.append(("enum_spines", {"ks": [2, 3], "stride": 32, "offset": o * 4 + 1, "max_len": 4}))
    else:
        for o in range(32):
            jobs.append(("enum_spines", {"ks": [2, 3], "stride": 32, "offset": o, "max_len": 6}))
        for o in range(16):
            jobs.append(("enum_spines", {"ks": [4], "stride": 16 * 40, "offset": o, "max_len": 5}))
    for p in range(4):
        jobs.append(("enum_family", {"part": p, "nparts": 4, "max_len": 4 if tier == "quick" else 6}))
    n = 3000 if tier == "quick" else 60000
    for i in range(4):
        jobs.append(("gen_random", {"seed": shard_seed(seed, ID, i), "n": n // 4}))
    return jobs
