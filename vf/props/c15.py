"""C15 - the shipped header patterns and follow-up patterns are unambiguous on every token.

Domain : for every language, every expression the language module passes to find_all (header) and starts_with
         (follow-up) - captured by wrapping scope_utils.find_all / starts_with while calling extract_headers - compiled
         with the real nfa_to_dfa. Breadth-first over all reachable configurations (DFA state, abstract state of every
         stateful predicate: nesting-depth class in {0,1,2,>=3} and every other attribute such as 'satisfied') by feeding REAL Token objects to Pattern.consume; every
         configuration keeps its shortest witness. Token classes = token kind x every value some predicate of that
         language distinguishes (+ one other value per kind).
         Every witness token sequence is also rendered to source text and passed through the real lexer and scan_file.
Oracle : in every reachable configuration and for every token class, (a) Pattern.consume does not raise the ambiguity
         error, and (b) counted on deep copies of the predicates, at most one of the transitions the engine considers
         (all of them, or only the ones in the middle of a group when there are such) accepts the token.
"""
from __future__ import annotations

from collections import deque
from copy import deepcopy

from vf.common import call_sut

ID = "C15"
LEVEL = "exploration"
RULE = (
    "complete breadth-first exploration per (language, expression): configurations = (DFA state, abstract state of "
    "each stateful predicate: depth class in {<0,0,1,2,>=3} plus all other attributes); each configuration x each token class is one evaluation (the witness token "
    "sequence is replayed through a fresh Pattern); non-trivial = configuration with some nesting depth > 0; "
    "distinct = distinct (language, expression, configuration, token class), visited once"
)
ASSUMPTIONS = [
    "depth >= 3 behaves like depth 3 and every negative depth like -1 (Balanced only tests depth against 0); more than 20 000 abstract configurations for one pattern is a harness error",
    "token classes: every standard Pygments token type that survives filtering, sub-kinds included (Keyword.Type, Name.Function, Operator.Word ...), x the values distinguished by the language's predicates; "
    "String pieces may carry any text (Pygments splits string literals), Name tokens may read like keywords",
    "follow-up patterns are explored up to their first accepting state, as starts_with does",
]
EXHAUSTIVE = "all reachable (DFA state, depth class) configurations x all token classes, for all 7 languages"
FLOOR = {"quick": 50, "thorough": 50}


def capture(lang):
    """[(role, expression)] in call order: role is 'header' (find_all) or 'followup' (starts_with)."""
    from codelimit.common.scope import scope_utils
    from vf.props.c14 import make_tokens

    seen = []
    # the header expression reaches the matcher through find_all or (with a follow-up pattern) find_candidates
    finders = [n for n in ("find_all", "find_candidates") if hasattr(scope_utils, n)]
    o_finders = {n: getattr(scope_utils, n) for n in finders}
    o_starts = scope_utils.starts_with

    def make_rec(real):
        def rec_find(expression, tokens):
            if not any(e is expression for _, e in seen):
                seen.append(("header", expression))
            return real(expression, tokens)

        return rec_find

    def rec_starts(expression, tokens):
        if not any(e is expression for _, e in seen):
            seen.append(("followup", expression))
        return o_starts(expression, tokens)

    for n in finders:
        setattr(scope_utils, n, make_rec(o_finders[n]))
    scope_utils.starts_with = rec_starts
    try:
        # probes that make every header expression produce at least one match, so the follow-up is consulted
        for probe in (["id", "(", ")", "{"], ["def", "id", "(", ")", "{"], ["function", "id", "(", ")", "{"],
                      ["const", "id", "=", "(", ")", "=>", "{"]):
            try:
                lang.extract_headers(make_tokens(probe))
            except Exception:
                pass
    finally:
        for n in finders:
            setattr(scope_utils, n, o_finders[n])
        scope_utils.starts_with = o_starts
    out, ids = [], set()
    for role, e in seen:
        key = (role, _expr_key(e))
        if key not in ids:
            ids.add(key)
            out.append((role, e))
    return out


def _expr_key(e):
    return repr(_walk_values(e)) + str(type(e)) + str(len(e) if isinstance(e, list) else 0)


def _walk_values(obj, acc=None, depth=0):
    """Collect the string values any predicate inside an expression compares against."""
    if acc is None:
        acc = {"keyword": set(), "symbol": set(), "operator": set(), "value": set()}
    if depth > 12:
        return acc
    if isinstance(obj, (list, tuple)):
        for x in obj:
            _walk_values(x, acc, depth + 1)
        return acc
    if isinstance(obj, str):
        acc["value"].add(obj)
        return acc
    cls = type(obj).__name__
    d = getattr(obj, "__dict__", {})
    if cls == "Keyword" and "keyword" in d:
        acc["keyword"].add(d["keyword"])
    elif cls == "Symbol" and "symbol" in d:
        acc["symbol"].add(d["symbol"])
    elif cls == "Operator" and "symbol" in d:
        acc["operator"].add(d["symbol"])
    elif cls == "TokenValue" and "value" in d:
        acc["value"].add(d["value"])
    for k, v in d.items():
        if k in ("satisfied", "depth"):
            continue
        if isinstance(v, (list, tuple)) or hasattr(v, "__dict__") or isinstance(v, str) and cls in ("Atom",):
            _walk_values(v, acc, depth + 1)
    return acc


def token_classes(all_exprs):
    import pygments.token as T

    vals = {"keyword": set(), "symbol": set(), "operator": set(), "value": set()}
    for e in all_exprs:
        v = _walk_values(e)
        for k in vals:
            vals[k] |= v[k]
    words = {x for x in vals["keyword"] | vals["value"] if x[:1].isalpha()}
    marks = {x for x in vals["symbol"] | vals["operator"] | vals["value"] if x and not x[:1].isalpha()} | {",", "<", ">", "(", ")", "[", "]", "{", "}"}
    # every standard Pygments token type that survives filtering (all but whitespace and comments), sub-kinds included:
    # predicates test kinds with `in`, so a sub-kind such as Keyword.Type or Name.Function is a token class of its own
    kinds = [t for t in T.STANDARD_TYPES if t is not T.Token and t not in T.Comment and t not in T.Whitespace and t is not T.Text.Whitespace]
    classes = []
    for kind in sorted(kinds, key=str):
        if kind in T.Keyword or kind in T.Name:
            pool = words | {"kwother", "zz"}
        elif kind in T.Punctuation or kind in T.Operator:
            pool = marks | ({"in", "new"} if kind in T.Operator else set())
        elif kind in T.Literal.Number:
            pool = {"1"}
        else:
            pool = words | marks | {"zz"}
        for v in sorted(pool):
            classes.append((kind, v))
        # 'every possible token': the same values with blanks around them (a lexer rule may attach them), which predicates
        # that strip or do not strip their operand tell apart differently
        if kind in T.Punctuation or kind in T.Operator:
            for v in sorted(pool):
                classes += [(kind, v + " "), (kind, " " + v), (kind, v + "\n")]
        elif kind in (T.Keyword, T.Name):
            for v in sorted(pool):
                classes.append((kind, v + " "))
    return classes


MAX_CONFIGS = 20000  # the built-in patterns have a few hundred; a harness error (exit 2), never a verdict, beyond this


def _mk(cls, k=0):
    from codelimit.common.Location import Location
    from codelimit.common.Token import Token

    return Token(Location(1, 1 + 2 * k), cls[0], cls[1])


def _dfa_states(dfa):
    order, seen, dq = [], set(), deque([dfa.start])
    while dq:
        s = dq.popleft()
        if id(s) in seen:
            continue
        seen.add(id(s))
        order.append(s)
        for _, t in s.transition:
            dq.append(t)
    return {id(s): i for i, s in enumerate(order)}


def _replay(dfa, witness):
    from codelimit.common.gsm.Pattern import Pattern

    p = Pattern(0, dfa)
    for k, cls in enumerate(witness):
        if p.consume(_mk(cls, k)) is None:
            return None
    return p


def _pstate(obj, lvl=0):
    """Abstract state of a (stateful) predicate: every attribute, recursively; counters are capped at 3."""
    if isinstance(obj, bool) or obj is None or isinstance(obj, str):
        return obj
    if isinstance(obj, int):
        return min(obj, 3) if obj >= 0 else -1
    if isinstance(obj, (list, tuple, set, frozenset)) and lvl < 4:
        items = [_pstate(x, lvl + 1) for x in (sorted(obj, key=repr) if isinstance(obj, (set, frozenset)) else obj)]
        return (type(obj).__name__, tuple(items[:3]), len(items) > 3)  # collections: first three elements, 'more' flag
    if isinstance(obj, dict) and lvl < 4:
        return ("dict", tuple(sorted((repr(k), _pstate(v, lvl + 1)) for k, v in list(obj.items())[:3])), len(obj) > 3)
    if hasattr(obj, "__dict__") and lvl < 4:
        return (type(obj).__name__, tuple(sorted((k, _pstate(v, lvl + 1)) for k, v in obj.__dict__.items())))
    return type(obj).__name__


def _config(p, index):
    """(DFA state, abstract state of every predicate copy the pattern holds). depths[] is kept for reporting."""
    states, depths = [], []
    for pid in sorted(p.predicate_map):
        pred = p.predicate_map[pid]
        states.append(_pstate(pred))
        d = getattr(pred, "depth", None)
        if d is not None:
            depths.append(max(min(d, 3), -1))  # same abstraction as _pstate: 3 stands for '3 or more', -1 for 'negative'
    return (index[id(p.state)], tuple(depths), tuple(states))


def _count_accepting(p, tok):
    """(b): number of considered transitions whose predicate (a deep copy of the pattern's own stateful copy) accepts."""
    trans = list(p.state.transition)
    pend = []
    for t in trans:
        c = p.predicate_map.get(id(t[0]))
        if c is not None and getattr(c, "is_pending", None) is not None and c.is_pending():
            pend.append(t)
    considered = pend or trans
    n = 0
    for t in considered:
        pred = deepcopy(p.predicate_map.get(id(t[0]), t[0]))
        if pred.accept(tok):
            n += 1
    return n, len(considered)


def explore(lname, k, role, expr, classes):
    """Yields ('eval', nontrivial, sample) / ('fail', case, bucket, msg) events; complete BFS."""
    from codelimit.common.gsm.Expression import expression_to_nfa, nfa_to_dfa

    dfa = nfa_to_dfa(expression_to_nfa(expr))
    index = _dfa_states(dfa)
    start = _replay(dfa, [])
    seen = {_config(start, index): []}
    dq = deque([[]])
    while dq:
        witness = dq.popleft()
        base = _replay(dfa, witness)
        cfg = _config(base, index)
        if role == "followup" and witness and base.is_accepting():
            continue  # starts_with returns at the first accepting state
        for cls in classes:
            p = _replay(dfa, witness)
            tok = _mk(cls, len(witness))
            nontrivial = any(d > 0 for d in cfg[1])
            case = {"language": lname, "index": k, "role": role, "witness": [[str(c[0]), c[1]] for c in witness], "token": [str(cls[0]), cls[1]],
                    "text": " ".join(c[1] for c in witness + [cls])}
            n, considered = _count_accepting(p, tok)
            if n > 1:
                yield ("fail", case, f"{role}:ambiguous", f"{lname} {role} #{k}: in configuration state={cfg[0]} depths={cfg[1]} "
                       f"(witness {case['text']!r}) {n} of {considered} considered transitions accept token {cls[1]!r} ({cls[0]})")
                yield ("eval", nontrivial, case)
                continue
            r = call_sut(p.consume, tok)
            yield ("eval", nontrivial, case)
            if r[0] == "exc":
                yield ("fail", case, f"{role}:{r[1]}", f"{lname} {role} #{k}: witness {case['text']!r}: {r[2]}")
                continue
            if r[1] is None:
                continue
            ncfg = _config(p, index)
            if ncfg not in seen:
                if len(seen) >= MAX_CONFIGS:
                    raise RuntimeError(f"{lname} {role} #{k}: more than {MAX_CONFIGS} abstract configurations - the abstraction no longer bounds this pattern's state space")
                seen[ncfg] = witness + [cls]
                dq.append(witness + [cls])
    yield ("configs", len(seen), None)


def _lang_exprs(lname):
    from codelimit.languages import Languages

    return capture(Languages.by_name[lname])


def explore_language(col, lname):
    exprs = _lang_exprs(lname)
    if not any(r == "header" for r, _ in exprs):
        col.fail({"language": lname}, "no-header-expression", f"{lname}: extract_headers passed nothing to find_all")
        return
    classes = token_classes([e for _, e in exprs])
    col.notes[f"token_classes:{lname}"] = len(classes)
    texts = set()
    for k, (role, expr) in enumerate(exprs):
        n = nt = 0
        for ev in explore(lname, k, role, expr, classes):
            if ev[0] == "eval":
                n += 1
                nt += ev[1]
                if role == "header":
                    texts.add(ev[2]["text"])
                if ev[1] and n % 97 == 0:
                    col.sample({k2: ev[2][k2] for k2 in ("language", "role", "text")}, force=len(col.samples) < 2)
            elif ev[0] == "fail":
                col.fail(ev[1], ev[2], ev[3])
            elif ev[0] == "configs":
                col.notes["configurations"] = col.notes.get("configurations", 0) + ev[1]
                col.label(f"{lname}:{role}")
        col.bulk(n, nt)
    # every witness, rendered to source text, goes through the real lexer and scan_file: no text may raise the ambiguity error
    from vf.props.c01 import tool_scan_file

    n = 0
    for text in sorted(texts):
        for suffix in ("", " {\n}\n", ") => {\n}\n"):
            src = text + suffix
            r = call_sut(tool_scan_file, lname, src)
            n += 1
            if r[0] == "exc" and "Multiple transitions" in r[2]:
                col.fail({"language": lname, "source": src}, "source:ambiguity-error", f"{lname}: scan_file raised the ambiguity error on {src!r}\n{r[2][-600:]}")
    col.bulk(n, 0)
    col.label(f"{lname}:witness-sources")


def run_case(case):
    """Replay one (witness, token) pair against the current expression #index of the language."""
    if "source" in case:
        from vf.props.c01 import tool_scan_file

        r = call_sut(tool_scan_file, case["language"], case["source"])
        if r[0] == "exc" and "Multiple transitions" in r[2]:
            return ("source:ambiguity-error", r[2][-600:])
        return None
    import pygments.token as T

    def cls(pair):
        tt = T.Token
        for part in pair[0].split(".")[1:]:
            tt = getattr(tt, part)
        return (tt, pair[1])

    from codelimit.common.gsm.Expression import expression_to_nfa, nfa_to_dfa

    exprs = _lang_exprs(case["language"])
    cands = [e for r, e in exprs if r == case["role"]]
    if not cands:
        return None
    for expr in cands:
        dfa = nfa_to_dfa(expression_to_nfa(expr))
        r = call_sut(_replay, dfa, [cls(w) for w in case["witness"]])
        if r[0] == "exc":
            return (f"{case['role']}:{r[1]}", r[2])
        p = r[1]
        if p is None:
            continue
        tok = _mk(cls(case["token"]), len(case["witness"]))
        n, considered = _count_accepting(p, tok)
        if n > 1:
            return (f"{case['role']}:ambiguous", f"{n} of {considered} considered transitions accept {case['token']}")
        r = call_sut(p.consume, tok)
        if r[0] == "exc":
            return (f"{case['role']}:{r[1]}", r[2])
    return None


def plan(tier, seed):
    return [("explore_language", {"lname": ln}) for ln in ["C", "C#", "C++", "Java", "JavaScript", "Python", "TypeScript"]]
