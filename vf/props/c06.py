"""C06 - analysis is deterministic, order-independent and isolated per file.

Domain : a corpus of ~150 files on disk (vendored real-world sources, generated canonical programs, malformed inputs that
         abort matching midway, and byte-identical contents saved under names of different languages).
         (a) histories = (PYTHONHASHSEED drawn from 32-bit values incl. 0, 1, 2^32-1; a permutation of a drawn subset
         with 1..3 repetitions; a prefix of malformed files); each history is analysed file by file through
         Scanner._analyze_file in ONE fresh subprocess under that hash seed.
         (b) tree scans in a fresh subprocess under a drawn hash seed: scan_path(T), then scan_path of another tree U
         that carries its own .gitignore / .codelimit.yml / exclusions, then scan_path(T) again, then scan_path(T) with
         os.walk wrapped to return directory entries in a drawn order.
Oracle : differential - every per-file digest equals the file's baseline digest (the file analysed alone in a forked,
         never-used interpreter under hash seed 0); all reports of T equal its baseline report after dropping uuid /
         timestamp and sorting the file listing.
"""
from __future__ import annotations

import json
import os
import shutil
import subprocess
import sys
import tempfile
from pathlib import Path

from hypothesis import strategies as st

from vf.common import HOME, REPO, digest, run_given, shard_seed
from vf.gen import malformed as M
from vf.gen import programs as P
from vf.harness import tree
from vf.props.c04 import corpus, read_corpus

ID = "C06"
LEVEL = "exploration"
RULE = (
    "Hypothesis histories: hash seed x ordered multiset of corpus files (malformed prefix, repetitions) analysed in one "
    "fresh subprocess, and tree-scan sessions (T, other tree U with its own exclusions, T again, T with permuted "
    "os.walk order; T holds re-included exclusions, whole-name files and one directory name at several places with an anchored exclusion) under a drawn hash seed. Non-trivial = hash seed != 0, order != corpus order and a malformed file "
    "precedes a well-formed one (files) / a session with a foreign tree in between (trees); distinct by digest of the history"
)
ASSUMPTIONS = [
    "PYTHONHASHSEED values are sampled, not enumerated",
    "the baseline of a file is its analysis alone, in a child forked from an interpreter that has imported codelimit but analysed nothing, hash seed 0",
    "an exception is part of a file's observable result (its type is digested)",
]
FLOOR = {"quick": 30, "thorough": 300}
WORKER = str(HOME / "vf" / "harness" / "c06_worker.py")


def build_corpus(base: Path):
    """-> [(abs, rel, malformed?)] written under base/corpus"""
    import random

    root = base / "corpus"
    items = []
    for lang, rel in corpus():
        data = (HOME / "corpus" / rel).read_bytes()
        p = root / rel
        p.parent.mkdir(parents=True, exist_ok=True)
        p.write_bytes(data)
        items.append((str(p), rel, False))
    for lang in P.LANGS:
        for k in range(3):
            rnd = random.Random(1000 * k + len(lang))
            text = P.render(P.gen_program(rnd, lang, 25)).text
            rel = f"generated/{lang.replace('+', 'p').replace('#', 'sharp')}_{k}.{tree.EXT[lang]}"
            p = root / rel
            p.parent.mkdir(parents=True, exist_ok=True)
            p.write_text(text)
            items.append((str(p), rel, False))
        for k, t in enumerate(M.header_cuts(lang)[::7][:4] + M.bodiless_templates(lang)[:2]):
            rel = f"malformed/{lang.replace('+', 'p').replace('#', 'sharp')}_{k}.{tree.EXT[lang]}"
            p = root / rel
            p.parent.mkdir(parents=True, exist_ok=True)
            p.write_text(t)
            items.append((str(p), rel, True))
    # byte-identical contents under names of different languages
    same = {"c_vs_cpp": ("int outer(int a) {\n  int inner(int b) {\n    return b;\n  }\n  return inner(a);\n}\n", ["same/nested.c", "same/nested.cpp", "same/nested.cs"]),
            "macro": (MACRO_C, ["same/walk.c", "same/walk.cpp"]),
            "whole_names": ("def rule(a):\n    return a\n", ["same/BUILD", "same/sub/BUILD.bazel", "same/rule.py"]),
            "js_vs_ts": ("function typed(a: number): string {\n  return a;\n}\nconst f = (x) => {\n  return x;\n};\n", ["same/typed.js", "same/typed.ts"]),
            "empty": ("", ["same/__init__.py", "same/index.js"])}
    for text, rels in same.values():
        for rel in rels:
            p = root / rel
            p.parent.mkdir(parents=True, exist_ok=True)
            p.write_text(text)
            items.append((str(p), rel, False))
    # encodings: files that are not valid UTF-8 next to UTF-8 files with non-ASCII identifiers / last lines
    same_rels_extra = True
    enc = {
        "enc/latin1.py": "# caf\xe9\ndef f(a):\n    return 'na\xefve'\n".encode("latin-1"),
        "enc/latin1.js": "// \xe9t\xe9\nfunction g(a) {\n  return '\xfc';\n}\n".encode("latin-1"),
        "enc/utf8_names.py": "def gr\u00f6\u00dfe(a):\n    return a\n\ndef greet(n):\n    return 'gr\u00fc\u00df dich ' + n\n".encode("utf-8"),
        "enc/utf8_names.js": "function \u00fcber(a) {\n  return a; }\nfunction tail(a) {\n  return '\u65e5\u672c'; }\n".encode("utf-8"),
        "enc/utf8_bom.cs": "\ufeffclass A {\n  void M\u00e9thode(int a) {\n    a++;\n  }\n}\n".encode("utf-8"),
    }
    for rel, data in enc.items():
        p = root / rel
        p.parent.mkdir(parents=True, exist_ok=True)
        p.write_bytes(data)
        items.append((str(p), rel, False))
    # shapes whose analysis could lean on iteration order or on state another file left behind: an arrow function whose
    # parameter list holds another arrow (two transitions compete on '=>' while the group is open), a file that leaves
    # braces open, files that start with surplus closers
    special = {
        "same/arrow_in_params.js": "const retry = (task, onError = (e) => null) => {\n  return task(onError);\n};\nfunction after(a) {\n  return a;\n}\n",
        "same/arrow_in_params.ts": "const retry = (task: T, onError: F = (e: E) => null): R => {\n  return task(onError);\n};\nfunction after(a: number): number {\n  return a;\n}\n",
        "same/region_end.h": "}\nint tail(int a) {\n  return a;\n}\n}\n",
        "same/region_end.java": "  }\n  void tail(int a) {\n    a++;\n  }\n}\n",
        "same/region_end.js": "}\nfunction tail(a) {\n  return a;\n}\n});\n",
    }
    for rel, text in special.items():
        p = root / rel
        p.parent.mkdir(parents=True, exist_ok=True)
        p.write_text(text)
        items.append((str(p), rel, False))
    openers = {
        "malformed/region_begin.h": "namespace n {\nstruct s {\nint head(int a) {\n  if (a) {\n    return a;\n",
        "malformed/region_begin.java": "class A {\n  void head(int a) {\n    if (a > 0) {\n      a++;\n",
        "malformed/region_begin.js": "describe('x', function () {\n  function head(a) {\n    if (a) {\n      return a;\n",
    }
    for rel, text in openers.items():
        p = root / rel
        p.parent.mkdir(parents=True, exist_ok=True)
        p.write_text(text)
        items.append((str(p), rel, True))
    return items


MACRO_C = "int walk(struct node *head) {\n  int n = 0;\n  list_for_each(p, head) {\n" + "".join(f"    n += {i};\n" for i in range(38)) + "  }\n  return n;\n}\n"


def build_trees(base: Path):
    t = base / "T"
    u = base / "U"
    tree.write_files(t, {
        "src/a.py": tree.flat_file("Python", [3, 31]), "src/b.js": tree.flat_file("JavaScript", [61]), "generated/api.py": tree.flat_file("Python", [4]),
        "proto/message_pb2.py": tree.flat_file("Python", [2]), "lib/x/y/z.c": tree.flat_file("C", [16]), "lib/k.java": tree.flat_file("Java", [5, 6]),
        "zz/last.ts": tree.flat_file("TypeScript", [3]), "aa/first.cs": tree.flat_file("C#", [2]), "same/nested.c": "int f(int a) {\n  return a;\n}\n",
        "same/nested.cpp": "int f(int a) {\n  return a;\n}\n",
        # byte-identical files that the two languages measure differently (the macro block is a nested scope in C++ only)
        "dup/walk.c": MACRO_C, "dup/walk.cpp": MACRO_C,
        # names Pygments recognises as a whole (build files are Python to Pygments), next to names it maps elsewhere or nowhere
        "BUILD": "def rule(a):\n    return a\n", "Makefile": "all:\n\techo hi\n", "LICENSE": "text\n", "pkg/BUILD.bazel": "def r2(a):\n    return a\n",
        "pkg/WORKSPACE.bazel": "x = 1\n", "pkg/SConstruct": "def s(a):\n    return a\n", "pkg/Dockerfile": "FROM x\n",
        # configured exclusions with a re-include: the order of the patterns matters (last match wins)
        ".codelimit.yml": "exclude:\n  - \"generated/*\"\n  - \"!generated/api.py\"\n  - \"proto/*\"\n  - \"!proto/message_pb2.py\"\n  - \"zz\"\n  - \"!zz/last.ts\"\n"
                          "  - \"docs/examples\"\n  - \"lib/x/samples/\"\n",
        # one directory name at several places, excluded (by an anchored pattern) at one of them only: whichever of them the
        # walk reaches first, the others must still be scanned
        "docs/examples/demo.py": tree.flat_file("Python", [4]), "src/examples/demo.py": tree.flat_file("Python", [5]), "aa/examples/e.js": tree.flat_file("JavaScript", [3]),
        "zz/examples/e.c": tree.flat_file("C", [3]), "lib/x/samples/s.py": tree.flat_file("Python", [2]), "samples/s.py": tree.flat_file("Python", [3]),
        "src/samples/t.java": tree.flat_file("Java", [4]),
        # several hidden folders side by side (none of them in the built-in exclusions), each holding supported files
        ".storybook/main.js": tree.flat_file("JavaScript", [4]), ".husky/hook.py": tree.flat_file("Python", [3]), ".a/x.py": tree.flat_file("Python", [2]),
        ".b/y.c": tree.flat_file("C", [2]), ".c/z.java": tree.flat_file("Java", [2]), "src/.h1/a.py": "x = 1\n", "src/.h2/b.py": tree.flat_file("Python", [5]),
        # two names that differ only in Unicode normalisation form (distinct files to the file system), different content
        "enc/caf\u00e9.py": tree.flat_file("Python", [3]), "enc/cafe\u0301.py": tree.flat_file("Python", [4, 2]),
        "enc/latin1.py": "# caf\xe9\ndef f(a):\n    return a\n".encode("latin-1"), "enc/utf8.py": "def gr\u00f6\u00dfe(a):\n    return 'gr\u00fc\u00df'\n",
    })
    # directories reachable a second time through a symbolic link (never followed by the scan, whatever the walk order)
    os.symlink("../lib", t / "src" / "vendored")
    os.symlink("../../src", t / "lib" / "x" / "up")
    tree.write_files(u, {
        "app/main.py": tree.flat_file("Python", [7]), "generated/skip.py": tree.flat_file("Python", [2]), "x_pb2.py": "x = 1\n", "src/c.js": "function f(",
        ".gitignore": "generated/\n*_pb2.py\nsrc/a.py\n", ".codelimit.yml": "exclude:\n  - \"lib/\"\n  - \"*.js\"\n",
    })
    return str(t), str(u)


def run_worker(req, hashseed, timeout=600):
    env = dict(os.environ)
    env["PYTHONHASHSEED"] = str(hashseed)
    env["PYTHONPATH"] = f"{REPO}:{HOME}"
    p = subprocess.run([sys.executable, WORKER], input=json.dumps(req), capture_output=True, text=True, env=env, timeout=timeout)
    if p.returncode != 0:
        raise RuntimeError(f"c06 worker failed (harness): {p.stderr[-800:]}")
    return json.loads(p.stdout)


class Fixture:
    def __init__(self):
        self.base = Path(tempfile.mkdtemp(prefix="vf-c06-")).resolve()
        self.items = build_corpus(self.base)
        self.t, self.u = build_trees(self.base)
        self.baseline = dict(zip([r for _, r, _ in self.items], run_worker({"mode": "isolated", "items": [[a, r] for a, r, _ in self.items]}, 0)["digests"]))
        self.tree_baseline = run_worker({"mode": "trees", "t": self.t}, 0)["reports"][0]

    def close(self):
        shutil.rmtree(self.base, ignore_errors=True)


_FIX = None


def fixture():
    global _FIX
    if _FIX is None:
        _FIX = Fixture()
        import atexit

        atexit.register(_FIX.close)
    return _FIX


def check_files_history(case):
    fx = fixture()
    by_rel = {r: a for a, r, _ in fx.items}
    order = [r for r in case["order"] if r in by_rel]
    out = run_worker({"mode": "files", "items": [[by_rel[r], r] for r in order]}, case["hashseed"])
    for i, (rel, d) in enumerate(zip(order, out["digests"])):
        if d != fx.baseline[rel]:
            prev = order[max(0, i - 3) : i]
            return ("file-result-depends-on-context", f"{rel} (position {i + 1} of {len(order)}, PYTHONHASHSEED={case['hashseed']}) differs from its baseline result; analysed just before it: {prev}")
    return None


def check_tree_session(case):
    fx = fixture()
    req = {"mode": "trees", "t": fx.t, "u": fx.u if case.get("foreign") else None, "walk_seed": case.get("walk_seed", 1), "u_excludes": case.get("u_excludes", []),
           "permute_first": bool(case.get("permute_first"))}
    out = run_worker(req, case["hashseed"])
    names = ["first scan", "scan after a foreign tree", "scan with permuted directory order"]
    for name, d in zip(names, out["reports"]):
        if d != fx.tree_baseline:
            return (f"report-differs:{name.replace(' ', '-')}", f"{name} of T differs from the baseline report (PYTHONHASHSEED={case['hashseed']}, walk seed {case.get('walk_seed')}, foreign excludes {case.get('u_excludes')})")
    return None


def run_case(case):
    if case["kind"] == "files":
        return check_files_history(case)
    return check_tree_session(case)


def shrink_candidates(case):
    if case["kind"] != "files":
        if case.get("foreign"):
            yield dict(case, foreign=False)
        if case["hashseed"] != 0:
            yield dict(case, hashseed=0)
        return
    order = case["order"]
    k = max(1, len(order) // 2)
    while k >= 1:
        for i in range(0, len(order), k):
            yield dict(case, order=order[:i] + order[i + k :])
        if k == 1:
            break
        k //= 2
    if case["hashseed"] != 0:
        yield dict(case, hashseed=0)


hashseeds = st.one_of(st.sampled_from([0, 1, 2, 4294967295, 12345]), st.integers(0, 2**32 - 1))


def gen(col, seed, n_files, n_trees, max_files):
    fx = fixture()
    rels = [r for _, r, _ in fx.items]
    bad_rels = [r for _, r, m in fx.items if m]
    same_rels = [r for r in rels if r.startswith(("same/", "enc/"))]

    @st.composite
    def file_histories(draw):
        k = draw(st.integers(5, max_files))
        subset = draw(st.lists(st.sampled_from(rels), min_size=k, max_size=k))
        if draw(st.booleans()):
            subset += draw(st.permutations(same_rels))
        reps = draw(st.integers(1, 3))
        order = list(draw(st.permutations(subset * reps)))
        prefix = draw(st.lists(st.sampled_from(bad_rels), min_size=0, max_size=4))
        return {"kind": "files", "hashseed": draw(hashseeds), "order": prefix + order}

    def body_files(case):
        order = case["order"]
        malformed = set(bad_rels)
        first_good = next((i for i, r in enumerate(order) if r not in malformed), len(order))
        nt = case["hashseed"] != 0 and any(r in malformed for r in order[:first_good]) and order != sorted(order)
        col.eval(case, nontrivial=nt, labels=["history:files", f"files:{min(len(order) // 20 * 20, 100)}+", "hashseed:0" if case["hashseed"] == 0 else "hashseed:other"])
        col.samples = [s if not (isinstance(s, dict) and len(s.get("order", [])) > 12) else dict(s, order=s["order"][:12] + [f"... {len(s['order']) - 12} more"]) for s in col.samples]

    @st.composite
    def tree_sessions(draw):
        return {"kind": "trees", "hashseed": draw(hashseeds), "foreign": draw(st.sampled_from([True, True, False])), "walk_seed": draw(st.integers(0, 10**6)),
                "permute_first": draw(st.booleans()),
                "u_excludes": draw(st.lists(st.sampled_from(["src/", "*.py", "same/nested.c", "lib/*", "zz"]), max_size=3))}

    def body_trees(case):
        col.eval(case, nontrivial=bool(case["foreign"]), labels=["history:trees", "foreign-tree" if case["foreign"] else "no-foreign-tree"])

    run_given(body_files, file_histories(), seed, n_files)
    run_given(body_trees, tree_sessions(), seed + 1, n_trees)


def plan(tier, seed):
    quick = tier == "quick"
    return [("gen", {"seed": shard_seed(seed, ID, i), "n_files": 3 if quick else 40, "n_trees": 2 if quick else 14, "max_files": 40 if quick else 120}) for i in range(16)]
