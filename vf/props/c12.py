"""C12 - check and scan agree on every file.

Domain : C11 trees (hidden / built-in-excluded / ordinary names; exclusion lists by option, .codelimit.yml and
         .gitignore, here also with negation, '**', rooted and bracket patterns; extra headers with ambiguous extensions) whose supported files hold flat functions with lengths around 30 and 60, canonical generated
         programs, malformed text and Latin-1 bytes; the working directory is the codebase root; every file is reached by
         its relative path, through its parent directory, through the root ('.') and through an absolute directory.
Oracle : differential against scan_path('.') in the same configuration: the functions check lists for a file are exactly
         scan's measurements with length > 30 (same name, line, column, length; longest first per file); files scan
         skips as excluded are never listed however reached; hidden files are not listed when reached through a
         directory; 'N files checked' equals the number of files scan analyses under that argument.
"""
from __future__ import annotations

import json
import os
import shutil
from pathlib import Path

from hypothesis import strategies as st

from vf.common import call_sut, run_given, shard_seed
from vf.gen import programs as P
from vf.harness import cli, tree
from vf.props import c11
from vf.ref import gitignore as G

ID = "C12"
LEVEL = "exploration"
RULE = (
    "Hypothesis: tree x file contents x exclusion lists (as C11) x a sample of ways of reaching files (each file by "
    "relative path; every directory relatively; root as '.' and as an absolute path). Non-trivial = at least one "
    "finding (> 30) is expected and the tree holds an excluded or hidden supported file; distinct by digest of the case"
)
ASSUMPTIONS = [
    "the working directory is the codebase root (as the statement says); exclusions and .codelimit.yml are loaded as codelimit.__main__.check does",
    "a hidden file or hidden directory named directly on the command line is left unconstrained (the statement constrains hidden files 'reached through a directory' that is itself visible)",
    "inputs on which scan itself raises are C03's subject: such cases are counted and skipped",
    "both commands run in-process through their entry functions in codelimit.__main__ (scan is read from the report it writes, check from its captured stdout: 'path:line:col: length symbol name')",
]
FLOOR = {"quick": 150, "thorough": 3000}

LANG_EXT = {"py": "Python", "c": "C", "cpp": "C++", "cc": "C++", "cs": "C#", "java": "Java", "js": "JavaScript", "mjs": "JavaScript", "ts": "TypeScript"}


@st.composite
def contents(draw, ext):
    lang = LANG_EXT.get(ext)
    if lang is None:
        return draw(st.sampled_from(["hello\n", "", "x\n" * 40]))
    kind = draw(st.sampled_from(["flat", "flat", "flat", "canonical", "malformed", "latin1", "empty", "flat_nocl", "cr", "exact"]))
    if kind == "exact":
        # one function that fills the whole file, with and without a final newline (31 lines = 30 newline characters)
        v = draw(st.sampled_from([30, 31, 32, 60, 61, 62]))
        text = tree.flat_file(lang, [v])
        if lang in ("Java", "C#"):
            text = tree.flat_function(lang, "only", v)
        return text.rstrip("\n") if draw(st.booleans()) else text
    if kind in ("flat_nocl", "cr"):
        ls = draw(st.lists(st.sampled_from([5, 31, 35, 45, 61, 62]), min_size=2, max_size=4))
        if lang == "Python":
            ls = [max(2, v) for v in ls]
        marked = {i for i in range(len(ls)) if draw(st.booleans())} if kind == "flat_nocl" else set()
        text = tree.flat_file(lang, ls, marked=marked)
        if kind == "cr":
            mode = draw(st.sampled_from(["cr-only", "crlf", "stray-cr"]))
            lead = "#" if lang == "Python" else "//"
            if mode == "cr-only":
                text = text.replace("\n", "\r")
            elif mode == "crlf":
                text = text.replace("\n", "\r\n")
            else:
                text = f"{lead} a stray\rcarriage return\n" + text
            return {"raw_hex": text.encode("utf-8").hex()}
        return text
    if kind == "flat":
        ls = draw(st.lists(st.sampled_from([5, 29, 30, 31, 32, 45, 59, 60, 61, 62, 80]), min_size=1, max_size=4))
        if lang == "Python":
            ls = [max(2, v) for v in ls]
        return tree.flat_file(lang, ls)
    if kind == "canonical":
        rnd = draw(st.randoms(use_true_random=False))
        return P.render(P.gen_program(rnd, lang, draw(st.sampled_from([20, 45])))).text
    if kind == "malformed":
        base = tree.flat_file(lang, [33 if lang != "Python" else 33, 4])
        cut = draw(st.integers(0, len(base)))
        return base[:cut] + draw(st.sampled_from(["", "(", "{", "def f(", "function g(a = () => 0) => {"]))
    if kind == "latin1":
        body = tree.flat_file(lang, [35, 3])
        lead = "#" if lang == "Python" else "//"
        return (f"{lead} caf\xe9 na\xefve\n" + body).encode("latin-1")
    return ""


@st.composite
def wild_patterns(draw, files, dirs):
    """C11's five classes plus negation, '**', leading '/', character classes and '?': C12 is differential (scan decides
    what is excluded), so no reference semantics is needed for them."""
    base = draw(c11.patterns(files, dirs))
    paths = sorted(files)
    out = list(base)
    for _ in range(draw(st.integers(0, 3))):
        kind = draw(st.sampled_from(["negate-file", "negate-pattern", "rooted-dir", "doublestar", "class", "qmark"]))
        if kind == "negate-file" and paths:
            out.append("!" + draw(st.sampled_from(["", "/"])) + draw(st.sampled_from(paths)))
        elif kind == "negate-pattern" and out:
            out.append("!" + draw(st.sampled_from(out)).lstrip("!"))
        elif kind == "rooted-dir" and dirs:
            out.append("/" + draw(st.sampled_from(dirs)) + "/")
        elif kind == "doublestar":
            out.append(draw(st.sampled_from(["**/gen", "src/**", "**/*.js", "a/**/main.py"])))
        elif kind == "class":
            out.append(draw(st.sampled_from(["[ab]", "*.[ch]", "m[a-o]in.py"])))
        else:
            out.append(draw(st.sampled_from(["?", "mai?.py", "ut?l.*"])))
    return out


@st.composite
def cases(draw):
    files, dirs = draw(c11.trees())
    filled = {}
    for path in files:
        name = path.split("/")[-1]
        ext = name.rsplit(".", 1)[1] if "." in name.lstrip(".") and "." in name else ""
        c = draw(contents(ext))
        filled[path] = c if isinstance(c, (str, dict)) else {"latin1_hex": c.hex()}
    # headers and other extensions whose lexer Pygments has to choose among several candidates: scan decides, check must agree
    for _ in range(draw(st.integers(0, 3))):
        d = draw(st.sampled_from([""] + [x + "/" for x in dirs if not G.hidden(x)][:6]))
        ext = draw(st.sampled_from(["h", "h", "hh", "hpp", "cxx", "pyw", "cjs", "m", "inc"]))
        path = f"{d}hdr{len(filled)}.{ext}"
        if path in filled:
            continue
        body = tree.flat_file("C", [draw(st.sampled_from([31, 35, 61]))])
        lead = draw(st.sampled_from(["#pragma once\n", "/* [section two] */\n", "// @end\n", "#include <stdio.h>\n", "@interface Foo\n@end\n", ""]))
        filled[path] = lead + body
    if draw(st.integers(0, 3)) == 0:
        # byte-identical content under names of two languages that measure it differently
        from vf.props.c06 import MACRO_C

        d = draw(st.sampled_from([""] + [x + "/" for x in dirs if not G.hidden(x)][:4]))
        filled[f"{d}walk_dup.c"] = MACRO_C
        filled[f"{d}walk_dup.cpp"] = MACRO_C
    opt = draw(wild_patterns(files, dirs)) if draw(st.integers(0, 2)) else []
    yml = draw(wild_patterns(files, dirs)) if draw(st.booleans()) else None
    gi = draw(wild_patterns(files, dirs)) if draw(st.booleans()) else None
    nways = draw(st.integers(2, 6))
    cand = [("file", p) for p in sorted(files)] + [("dir", d) for d in dirs if not G.hidden(d)] + [("dir", "."), ("absdir", ".")] + [("absdir", d) for d in dirs[:3] if not G.hidden(d)]
    ways = [draw(st.sampled_from(cand)) for _ in range(nways)]
    ways = [list(w) for w in dict.fromkeys(ways)]
    anc = None
    if gi is None and draw(st.booleans()):
        anc = draw(wild_patterns(files, dirs)) + ["*.py", "src/", "lib/"][: draw(st.integers(0, 3))]
    return {"files": filled, "option": opt, "yml": yml, "gitignore": gi, "ancestor_gitignore": anc, "ways": ways}


def _materialise(files):
    return {p: (bytes.fromhex(c.get("latin1_hex") or c.get("raw_hex")) if isinstance(c, dict) else c) for p, c in files.items()}


def run_case(case):
    from codelimit.common import Scanner
    from codelimit.common.Configuration import Configuration

    files = _materialise(case["files"])
    if case["yml"] is not None:
        files[".codelimit.yml"] = c11._yaml_list(case["yml"])
    if case["gitignore"] is not None:
        files[".gitignore"] = "".join(p + "\n" for p in case["gitignore"])
    with tree.temp_tree(files) as root:
        if case.get("ancestor_gitignore"):
            # a .gitignore ABOVE the codebase root belongs to neither command's view of the codebase
            (root.parent / ".gitignore").write_text("".join(p + "\n" for p in case["ancestor_gitignore"]))

        def do_scan():
            cli.reset_config()
            cli.add_excludes(case["option"])
            Configuration.load(Path("."))
            return Scanner.scan_path(Path("."))

        # the scan side goes through the scan entry point as well (codelimit.__main__.scan: options, then .codelimit.yml)
        # and is read from the report it writes; scan_path with hand-made configuration is only the fallback
        res = cli.run_scan(root, ".", excludes=case["option"])
        scanned = None
        if not res.exc and res.code == 0:
            try:
                doc = json.loads((root / ".codelimit_cache" / "codelimit.json").read_text())
                scanned = {
                    k: sorted([(m["start"]["line"], m["start"]["column"], m["value"], m["unit_name"]) for m in e["measurements"] if m["value"] > 30], key=lambda t: -t[2])
                    for k, e in doc["codebase"]["files"].items()
                }
            except Exception:  # noqa: BLE001
                scanned = None
            shutil.rmtree(root / ".codelimit_cache", ignore_errors=True)
        if scanned is None:
            old = os.getcwd()
            os.chdir(root)
            try:
                r = call_sut(do_scan)
            finally:
                os.chdir(old)
                cli.reset_config()
            if r[0] == "exc":
                return None  # C03's subject
            scanned = {
                k: sorted([(m.start.line, m.start.column, m.value, m.unit_name) for m in e.measurements() if m.value > 30], key=lambda t: -t[2])
                for k, e in r[1].files.items()
            }
        for kind, target in case["ways"]:
            if kind == "file":
                if G.hidden(target):
                    continue  # unconstrained
                arg = target
                under = [target] if target in scanned else []
            else:
                arg = target if kind == "dir" else str(root if target == "." else root / target)
                prefix = "" if target == "." else target + "/"
                under = [k for k in scanned if k.startswith(prefix)]
            res = cli.run_check(root, [arg], quiet=False, excludes=case["option"])
            desc = f"check {arg!r} (option {case['option']} yml {case['yml']} gitignore {case['gitignore']})"
            if res.exc:
                return (f"check:{kind}:{res.exc[0]}", f"{desc}\n{res.exc[1]}")
            parsed = cli.parse_check_output(res.out)
            got = {}
            for path, line, col, ln, sym, name in parsed["findings"]:
                key = path
                if os.path.isabs(key):
                    key = os.path.relpath(key, root)
                got.setdefault(key, []).append((line, col, ln, name))
            want = {k: scanned[k] for k in under if scanned[k]}
            if set(got) != set(want):
                extra = sorted(set(got) - set(want))
                missing = sorted(set(want) - set(got))
                why = ""
                if extra:
                    e = extra[0]
                    why = "hidden" if G.hidden(e) else "excluded-or-not-scanned"
                return (f"check:{kind}:files-listed:{'extra-' + why if extra else 'missing'}", f"{desc}: findings for {sorted(got)}, scan has findings under it for {sorted(want)}")
            for k in want:
                if sorted(got[k]) != sorted(want[k]):
                    return (f"check:{kind}:findings-differ", f"{desc}: {k}: check lists {got[k]}, scan measures {want[k]}")
                if [g[2] for g in got[k]] != sorted([g[2] for g in got[k]], reverse=True):
                    return (f"check:{kind}:order", f"{desc}: {k}: {got[k]} not longest first")
            bad = cli.summary_matches(parsed, len(under), sum(len(v) for v in want.values()))
            if bad:
                return (f"check:{kind}:files-checked", f"{desc}: {bad}; scan analyses {len(under)} files there: {sorted(under)}")
            want_code = 1 if any(t[2] > 60 for k in want for t in want[k]) else 0
            if res.code != want_code:
                return (f"check:{kind}:exit-status", f"{desc}: exit {res.code}, expected {want_code}")
    return None


def shrink_candidates(case):
    ways = case["ways"]
    if len(ways) > 1:
        for i in range(len(ways)):
            yield dict(case, ways=ways[:i] + ways[i + 1 :])
    files = case["files"]
    for k in sorted(files):
        f2 = dict(files)
        del f2[k]
        if f2:
            yield dict(case, files=f2, ways=[w for w in ways if not (w[0] == "file" and w[1] == k)] or ways)
    for key in ("option", "yml", "gitignore"):
        lst = case[key]
        if lst:
            for i in range(len(lst)):
                yield dict(case, **{key: lst[:i] + lst[i + 1 :]})


def gen(col, seed, n):
    def body(case):
        pats = list(case["option"]) + list(case["yml"] or []) + list(case["gitignore"] or [])
        files = case["files"]
        supported = [p for p in files if G.language_of(p)]
        has_excl_or_hidden = any(G.hidden(p) or G.excluded(p, G.DEFAULT_EXCLUDES) for p in supported) or bool(pats)
        has_finding = any(not G.hidden(p) and not G.excluded(p, G.DEFAULT_EXCLUDES) and (isinstance(c, dict) or c.count("\n") > 31) for p, c in files.items() if G.language_of(p))
        labels = [f"way:{w[0]}" for w in case["ways"]]
        if any(p.startswith("!") for p in pats):
            labels.append("pattern:negation")
        if any(p.rsplit(".", 1)[-1] in ("h", "hh", "hpp", "m", "inc") for p in files):
            labels.append("ambiguous-extension")
        if any(isinstance(c, dict) for c in files.values()):
            labels.append("latin1-file")
        if case.get("ancestor_gitignore"):
            labels.append("gitignore-above-the-root")
        col.eval(case, nontrivial=has_excl_or_hidden and has_finding, labels=labels)
        col.samples = [s if not (isinstance(s, dict) and isinstance(s.get("files"), dict)) else dict(s, files=sorted(s["files"])) for s in col.samples]

    run_given(body, cases(), seed, n)


def plan(tier, seed):
    total = 640 if tier == "quick" else 12800
    return [("gen", {"seed": shard_seed(seed, ID, i), "n": total // 16}) for i in range(16)]
