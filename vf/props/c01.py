"""C01 - exact function discovery, span and length on canonical programs.

Domain : programs drawn from the canonical-fragment grammar of each of the 7 languages (vf/gen/programs.py): functions,
         methods, containers, global code, nesting to depth 5, statement mix, trivia anywhere, literals containing
         delimiters, multi-line headers, both brace styles, brace / call / string groups inside parameter lists, async,
         nested functions in first / middle / last position, body lengths up to ~90 with weight on 13..17, 28..32,
         58..62. Observed at scan_file(lex(lexer, text, False), language) and, for 1 case in 8, at
         scan_path(tmp_root).files[rel].measurements() with the file on disk.
Oracle : the list [(name, start, end, length)] equals the ground truth the renderer recorded from character spans
         (vf/gen/programs.expected), in source order; either reading of `async` is accepted as a whole.
"""
from __future__ import annotations

from hypothesis import strategies as st

from vf.common import call_sut, run_given, shard_seed, withheld_constructs
from vf.gen import programs as P
from vf.harness import tree

ID = "C01"
LEVEL = "exploration"
RULE = (
    "Hypothesis: language x size class x a Hypothesis-managed random stream driving the grammar of vf/gen/programs.py; "
    "each program is rendered with recorded character spans and analysed once. Non-trivial = at least two functions, or "
    "a nested function, or a function longer than 15 lines; distinct by digest of the program text"
)
ASSUMPTIONS = [
    "canonical = the shapes listed in DESIGN.md 3.1; shapes the shipped patterns do not describe are not generated",
    "`async def` / `async function`: a span starting at `async` or at `def`/`function` is accepted, consistently per file",
    "C++ `Widget::name(...)`: the qualified name may be one token (Pygments) - name and start are accepted either way",
    "all code tokens the renderer emits are single-line; multi-line tokens occur only as comments",
]
FLOOR = {"quick": 1500, "thorough": 20000}
REQUIRED_LABELS = [
    "nested", "depth>=3", "nested_first", "nested_middle", "nested_last", "one_token_line_after_nested", "param_brace_group",
    "param_call_group", "string_delims_in_params", "async", "multiline_header", "brace_next_line", "block_comment_multiline",
    "container", "global_code", "len>15", "len>30", "len>60", "arrow_function", "anonymous_class", "local_class", "throws",
    "return_type_on_previous_line", "qualified_name", "ts_return_type", "decorator", "macro_block", "callback_arrow", "lambda",
    "bare_block", "initialiser_block_after_method", "one_token_statement", "multiline_header_aligned",
]


def tool_scan_file(lang, text):
    from pygments.lexers import get_lexer_by_name

    from codelimit.common.Scanner import scan_file
    from codelimit.common.lexer_utils import lex
    from codelimit.languages import Languages

    lx = get_lexer_by_name(P.LEXER[lang])
    ms = scan_file(lex(lx, text, False), Languages.by_name[lx.__class__.name])
    return [(m.unit_name, m.start.line, m.start.column, m.end.line, m.end.column, m.value) for m in ms]


EXT = tree.EXT


def tool_scan_path(lang, text):
    from codelimit.common.Scanner import scan_path

    rel = f"src/prog.{EXT[lang]}"
    with tree.temp_tree({rel: text}) as root:
        cb = scan_path(root)
        if rel not in cb.files:
            return None
        e = cb.files[rel]
        ms = e.measurements()
        if e.loc != sum(m.value for m in ms):
            return [("<loc mismatch>", e.loc, 0, 0, 0, 0)]
        return [(m.unit_name, m.start.line, m.start.column, m.end.line, m.end.column, m.value) for m in ms]


def check_program(lang, text, wants, via="scan_file"):
    """wants: list of acceptable complete expectations (readings)."""
    r = call_sut(tool_scan_path if via == "scan_path" else tool_scan_file, lang, text)
    if r[0] == "exc":
        return (f"{lang}:{r[1]}", r[2])
    got = r[1]
    if got is None:
        return (f"{lang}:file-not-scanned", "scan_path did not analyse the file")
    diffs = [P.compare(got, w) for w in wants]
    if any(d is None for d in diffs):
        return None
    d = diffs[0]
    return (f"{lang}:{d[0]}", f"{d[1]}\n--- reported: {got}\n--- expected: {[w[:6] for w in wants[0]]}\n--- program:\n{text}")


def run_case(case):
    if case["kind"] == "text":
        want = [tuple(w) + ((tuple(w[:3]),),) for w in case["expect"]]
        return check_program(case["lang"], case["text"], [want], case.get("via", "scan_file"))
    ast = case["ast"]
    rd = P.render(ast)
    lang = ast["lang"]
    wants = [P.expected(rd, lang, "B")]
    if P.has_async(rd):
        wants.append(P.expected(rd, lang, "A"))
    return check_program(lang, rd.text, wants, case.get("via", "scan_file"))


def shrink_candidates(case):
    if case["kind"] != "ast":
        return
    if case.get("via") == "scan_path":
        yield dict(case, via="scan_file")
    for a in P.shrink_ast(case["ast"]):
        yield dict(case, ast=a)


def known_signature(case, bucket, entry):
    """An open finding covers a failure iff the program contains the withheld construct."""
    if case.get("kind") != "ast":
        return False
    return any(c in case["ast"].get("labels", []) for c in entry.get("withhold", []))


def labels_of(ast, rd, lang):
    labels = list(ast["labels"])
    want = P.expected(rd, lang, "B")
    mx = max([w[5] for w in want] + [0])
    for t in (15, 30, 60):
        if mx > t:
            labels.append(f"len>{t}")
    if P.one_token_line_after_nested(rd):
        labels.append("one_token_line_after_nested")
    nontrivial = len(want) >= 2 or "nested" in ast["labels"] or mx > 15
    return labels, nontrivial


def gen(col, seed, n, lang, sizes):
    known = withheld_constructs(ID)
    strat = st.tuples(st.randoms(use_true_random=False), st.sampled_from(sizes), st.integers(0, 7))

    def body(v):
        rnd, size, via = v
        ast = P.gen_program(rnd, lang, size, known)
        col.excluded_known += ast.get("excluded_known", 0)
        rd = P.render(ast)
        labels, nt = labels_of(ast, rd, lang)
        case = {"kind": "ast", "ast": ast, "via": "scan_path" if via == 0 else "scan_file"}
        col.eval(case, nontrivial=nt, labels=labels + [f"lang:{lang}", f"via:{case['via']}"], distinct_key=lang + rd.text)
        # keep samples small and readable: the rendered text instead of the AST
        col.samples = [s if not (isinstance(s, dict) and "ast" in s) else {"lang": s["ast"]["lang"], "text": P.render(s["ast"]).text[:1500]} for s in col.samples]

    run_given(body, strat, seed, n)


def plan(tier, seed):
    quick = tier == "quick"
    sizes = [10, 20, 35, 50] if quick else [10, 20, 35, 60, 100]
    per_lang = 640 if quick else 8000
    jobs = []
    for lang in P.LANGS:
        for k in range(2 if quick else 4):
            jobs.append(("gen", {"seed": shard_seed(seed, ID, f"{lang}{k}"), "n": per_lang // (2 if quick else 4), "lang": lang, "sizes": sizes}))
    return jobs
