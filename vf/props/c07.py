"""C07 - totals, profiles and the folder tree always agree with the measurements.

Domain : generated codebases (vf/gen/codebase.py): 0..25 files, relative paths to depth 6 over a pool of segment
         names (shared prefixes, names sorting before '.' and after letters; a quarter of the runs use arbitrary Unicode), 1..7 languages, 0..6 measurements per file with boundary-biased lengths, any insertion
         order; built with add_file + one aggregate(), as Scanner and ReportReader do.
Oracle : independent recomputation from the plain data - per-language totals, per-file profile partitioning loc,
         every folder's profile = sum over files beneath it, root = whole codebase, grand totals = sums over languages,
         tree lists every file / folder exactly once under its parent, every ancestor present, no extra folder.
         Checked on the Codebase object and on json.loads(ReportWriter(report).to_json())['codebase'].
"""
from __future__ import annotations

import json
import os
from collections import Counter

from hypothesis import strategies as st

from vf.common import call_sut, run_given, shard_seed
from vf.gen import codebase as G

ID = "C07"
LEVEL = "exploration"
RULE = (
    "Hypothesis codebases (files x paths x languages x measurement lists x insertion order); non-trivial = some file "
    "at depth >= 3, >= 2 languages and >= 1 function longer than 30; distinct by digest of the whole generated codebase. "
    "Plus really scanned trees (flat and 'minified' sources whose functions share lines) through the scan entry point and scan_path: "
    "the same oracle, fed with the measurements the report itself lists"
)
ASSUMPTIONS = [
    "aggregate() is called exactly once, as every caller in the tool does",
    "no duplicate file paths, '/' separated; a quarter of the runs also puts a FILE and a FOLDER of the same name under one parent "
    "(the data model lists them as 'name' and 'name/'; a file system could not hold both, so C11 never does this)",
    "file loc is the sum of its function lengths, as Scanner._analyze_file computes it (on scanned trees this is checked, not assumed)",
]
FLOOR = {"quick": 300, "thorough": 5000}


def category(v):
    return 0 if v <= 15 else 1 if v <= 30 else 2 if v <= 60 else 3


def expected(cb):
    files = cb["files"]
    totals = {}
    for f in files:
        t = totals.setdefault(f["language"], {"files": 0, "lines_of_code": 0, "functions": 0, "hard_to_maintain": 0, "unmaintainable": 0})
        t["files"] += 1
        t["lines_of_code"] += sum(f["lengths"])
        t["functions"] += len(f["lengths"])
        t["hard_to_maintain"] += sum(1 for v in f["lengths"] if 30 < v <= 60)
        t["unmaintainable"] += sum(1 for v in f["lengths"] if v > 60)
    fprof = {}
    for f in files:
        p = [0, 0, 0, 0]
        for v in f["lengths"]:
            p[category(v)] += v
        fprof[f["path"]] = p
    folders = {"./": {"entries": Counter(), "profile": [0, 0, 0, 0]}}
    for f in files:
        parts = f["path"].split("/")
        for k in range(1, len(parts)):
            key = "/".join(parts[:k]) + "/"
            if key not in folders:
                folders[key] = {"entries": Counter(), "profile": [0, 0, 0, 0]}
                parent = "/".join(parts[: k - 1]) + "/" if k > 1 else "./"
                folders[parent]["entries"][parts[k - 1] + "/"] += 1
        parent = "/".join(parts[:-1]) + "/" if len(parts) > 1 else "./"
        folders[parent]["entries"][parts[-1]] += 1
        for k in range(0, len(parts)):
            key = "/".join(parts[:k]) + "/" if k > 0 else "./"
            folders[key]["profile"] = [a + b for a, b in zip(folders[key]["profile"], fprof[f["path"]])]
    return totals, fprof, folders


def compare_view(view, cb, label):
    """view: {'totals': {lang: {...}}, 'tree': {key: {'entries': [names], 'profile': [...]}}, 'files': {path: {'loc', 'profile', 'n'}}}"""
    totals, fprof, folders = expected(cb)
    if set(view["totals"]) != set(totals):
        return (f"{label}:totals-languages", f"languages {sorted(map(str, view['totals']))} != {sorted(totals)}")
    for lang, t in totals.items():
        for k, v in t.items():
            if view["totals"][lang][k] != v:
                return (f"{label}:totals:{k}", f"{lang}.{k} = {view['totals'][lang][k]!r}, expected {v}")
    if set(view["files"]) != set(fprof):
        return (f"{label}:files-keys", f"files {sorted(view['files'])} != {sorted(fprof)}")
    for f in cb["files"]:
        got = view["files"][f["path"]]
        if got["loc"] != sum(f["lengths"]):
            return (f"{label}:file-loc", f"{f['path']}: loc {got['loc']} != {sum(f['lengths'])}")
        if list(got["profile"]) != fprof[f["path"]]:
            return (f"{label}:file-profile", f"{f['path']}: profile {got['profile']} != {fprof[f['path']]} (lengths {f['lengths']})")
        if sum(got["profile"]) != got["loc"]:
            return (f"{label}:file-profile-partition", f"{f['path']}: profile {got['profile']} does not partition loc {got['loc']}")
    if set(view["tree"]) != set(folders):
        missing = sorted(set(folders) - set(view["tree"]))
        extra = sorted(set(view["tree"]) - set(folders))
        return (f"{label}:tree-folders", f"folders missing {missing} extra {extra}")
    for key, exp in folders.items():
        got = view["tree"][key]
        if Counter(got["entries"]) != exp["entries"]:
            return (f"{label}:tree-entries", f"folder {key!r}: entries {sorted(got['entries'])} != {sorted(exp['entries'].elements())}")
        if list(got["profile"]) != exp["profile"]:
            which = "root-profile" if key == "./" else "folder-profile"
            return (f"{label}:{which}", f"folder {key!r}: profile {got['profile']} != {exp['profile']}")
    return None


def object_view(codebase):
    return {
        "totals": {
            lang: {"files": t.files, "lines_of_code": t.loc, "functions": t.functions, "hard_to_maintain": t.hard_to_maintain, "unmaintainable": t.unmaintainable}
            for lang, t in codebase.totals.items()
        },
        "tree": {k: {"entries": [e.name for e in v.entries], "profile": list(v.profile)} for k, v in codebase.tree.items()},
        "files": {k: {"loc": e.loc, "profile": list(e.profile()), "n": len(e.measurements())} for k, e in codebase.files.items()},
    }


def json_view(doc):
    c = doc["codebase"]
    return {
        "totals": c["totals"],
        "tree": c["tree"],
        "files": {k: {"loc": v["loc"], "profile": v["profile"], "n": len(v["measurements"])} for k, v in c["files"].items()},
    }


# --------------------------------------------------------------------------- the same oracle on really scanned trees

SHARED_LINE_SOURCES = {
    "js": ["function a(x) { return function inner(y) { return y; } }\n", "function a(){ return 1; } function b(){ return 2; }\n",
           "function outer(x) {\n  return function inner(y) {\n    return y;\n  } }\n", "const f = (a) => { return a; }; function g() { return 1; }\n"],
    "ts": ["function a(x: number): number { return x; } function b(): void { }\n", "class K { m(): void { } n(): void { } }\n"],
    "c": ["int a(int x) { return x; } int b(int x) { return x; }\n", "int a(int x) { return x; }\nint b(int y) {\n  return y; } int c(int z) { return z; }\n"],
    "cpp": ["int a(int x) { return x; } int b(int x) { return x; }\n"],
    "java": ["class A { void m() { } void n() { } }\n", "class A {\n  void m() { int x = 1; } void n() {\n    int y = 2;\n  }\n}\n"],
    "cs": ["class A { void M() { } void N() { } }\n"],
    "py": ["def a(x):\n    def b(y): return y\n    return b\n", "def a(x):\n    return x\ndef b(y):\n    return y\n"],
}


def check_scanned(case):
    """Real files (among them 'minified' ones: several functions on one line, a nested function closing on its parent's
    last line) through the scan entry point; the totals / profiles / tree of the written report - and of the Codebase
    object scan_path returns - must agree with the measurements listed in the same report."""
    from pathlib import Path

    from codelimit.common import Scanner

    from vf.harness import cli, tree

    with tree.temp_tree(case["files"]) as root:
        res = cli.run_scan(root, ".")
        if res.exc:
            return (f"scan:{res.exc[0]}", res.exc[1])
        try:
            doc = json.loads((root / ".codelimit_cache" / "codelimit.json").read_text())
        except Exception as e:  # noqa: BLE001
            return ("scan:no-report", f"{type(e).__name__}: {e}")
        data = {"root": str(root), "files": [
            {"path": k, "language": e["language"], "checksum": e["checksum"], "lengths": [m["value"] for m in e["measurements"]]}
            for k, e in doc["codebase"]["files"].items()]}
        bad = compare_view(json_view(doc), data, "scanned-json")
        if bad:
            return bad
        # scan again on top of the cache: unchanged, then with a copy of one file at a new path in a new folder
        first = sorted(case["files"])[0]
        for step in ("rescan-unchanged", "rescan-after-copy"):
            if step == "rescan-after-copy":
                dst = root / "copied" / "deep" / ("copy_of_" + first.split("/")[-1])
                dst.parent.mkdir(parents=True, exist_ok=True)
                dst.write_bytes((root / first).read_bytes())
            res = cli.run_scan(root, ".")
            if res.exc:
                return (f"{step}:{res.exc[0]}", res.exc[1])
            doc = json.loads((root / ".codelimit_cache" / "codelimit.json").read_text())
            data = {"root": str(root), "files": [
                {"path": k, "language": e["language"], "checksum": e["checksum"], "lengths": [m["value"] for m in e["measurements"]]}
                for k, e in doc["codebase"]["files"].items()]}
            bad = compare_view(json_view(doc), data, f"scanned-json:{step}")
            if bad:
                return bad
            if step == "rescan-after-copy" and f"copied/deep/copy_of_{first.split('/')[-1]}" not in doc["codebase"]["files"]:
                return (f"scanned-json:{step}:copy-missing", f"the copied file is not in the report: {sorted(doc['codebase']['files'])}")
        old = os.getcwd()
        os.chdir(root)
        try:
            cli.reset_config()
            r = call_sut(lambda: Scanner.scan_path(Path(".")))
        finally:
            os.chdir(old)
        if r[0] == "exc":
            return (f"scan_path:{r[1]}", r[2])
        cb = r[1]
        cb.aggregate()
        data2 = {"root": str(root), "files": [{"path": k, "language": e.language, "checksum": e.checksum(), "lengths": [m.value for m in e.measurements()]} for k, e in cb.files.items()]}
        return compare_view(object_view(cb), data2, "scanned-object")


def run_case(cb):
    if cb.get("kind") == "scanned":
        return check_scanned(cb)
    from codelimit.common.ScanTotals import ScanTotals
    from codelimit.common.report.Report import Report
    from codelimit.common.report.ReportWriter import ReportWriter

    r = call_sut(G.build, cb)
    if r[0] == "exc":
        return (f"build:{r[1]}", r[2])
    codebase = r[1]
    bad = compare_view(object_view(codebase), cb, "object")
    if bad:
        return bad
    totals, _, _ = expected(cb)
    st_ = ScanTotals(codebase.totals)
    for field, fn in (("files", st_.total_files), ("lines_of_code", st_.total_loc), ("functions", st_.total_functions),
                      ("hard_to_maintain", st_.total_hard_to_maintain), ("unmaintainable", st_.total_unmaintainable)):
        want = sum(t[field] for t in totals.values())
        r = call_sut(fn)
        if r[0] == "exc":
            return (f"grand:{r[1]}", r[2])
        if r[1] != want:
            return (f"grand:{field}", f"grand total {field} = {r[1]}, expected {want}")
    # the incremental path the scanner uses for its live overview: a fresh ScanTotals() fed entry by entry
    def incremental():
        t = ScanTotals()
        for e in codebase.files.values():
            t.add(e)
        return {lt.language: (lt.files, lt.loc, lt.functions, lt.hard_to_maintain, lt.unmaintainable) for lt in t.languages_totals()}

    r = call_sut(incremental)
    if r[0] == "exc":
        return (f"scan-totals-incremental:{r[1]}", r[2])
    want_inc = {k: (v["files"], v["lines_of_code"], v["functions"], v["hard_to_maintain"], v["unmaintainable"]) for k, v in totals.items()}
    if r[1] != want_inc:
        return ("scan-totals-incremental", f"ScanTotals() fed with this codebase's entries gives {r[1]}, expected {want_inc}")
    all_loc = sum(sum(f["lengths"]) for f in cb["files"])
    if codebase.total_loc() != all_loc:
        return ("grand:codebase-total-loc", f"Codebase.total_loc() = {codebase.total_loc()}, expected {all_loc}")
    if len(cb["files"]) >= 2:
        # a code base that grows after its figures were asked for once (a long-lived Codebase object)
        def grown():
            half = len(cb["files"]) // 2
            c2 = G.build(dict(cb, files=cb["files"][:half]))
            c2.total_loc(), len(c2.all_measurements()), Report(c2).quality_profile()
            extra = G.build(dict(cb, files=cb["files"][half:]))
            for e in extra.files.values():
                c2.add_file(e)
            return c2.total_loc(), len(c2.all_measurements()), list(Report(c2).quality_profile())

        r = call_sut(grown)
        if r[0] == "exc":
            return (f"grown:{r[1]}", r[2])
        prof = [0, 0, 0, 0]
        for f in cb["files"]:
            for v in f["lengths"]:
                prof[category(v)] += v
        want_grown = (all_loc, sum(len(f["lengths"]) for f in cb["files"]), prof)
        if r[1] != want_grown:
            return ("grown:stale-figures", f"after adding files to a codebase whose figures had been read: (total_loc, functions, quality profile) = {r[1]}, expected {want_grown}")
    for pretty in (True, False):
        r = call_sut(lambda: ReportWriter(Report(codebase), pretty).to_json())
        if r[0] == "exc":
            return (f"writer:{r[1]}", r[2])
        try:
            doc = json.loads(r[1])
        except ValueError as e:
            return ("json:invalid", f"report is not JSON: {e}")
        bad = compare_view(json_view(doc), cb, "json")
        if bad:
            return bad
    return None


def shrink_candidates(cb):
    if cb.get("kind") == "scanned":
        fs = cb["files"]
        return [dict(cb, files={k: v for k, v in fs.items() if k != drop}) for drop in fs]
    return G.shrink_codebase(cb)


def _labels(cb):
    depth = max([f["path"].count("/") for f in cb["files"]] + [0])
    langs = {f["language"] for f in cb["files"]}
    big = any(v > 30 for f in cb["files"] for v in f["lengths"])
    labels = [f"depth:{min(depth, 6)}", f"languages:{min(len(langs), 4)}", f"files:{min(len(cb['files']) // 5 * 5, 20)}+"]
    if big:
        labels.append("has>30")
    return labels, (depth >= 3 and len(langs) >= 2 and big)


def gen(col, seed, n, wild=False, clash=False):
    def body(cb):
        labels, nt = _labels(cb)
        col.eval(cb, nontrivial=nt, labels=labels + ["wild-names" if wild else "plain-names"])

    run_given(body, G.codebases(wild=wild, clash=clash), seed, n)


def gen_scanned(col, seed, n):
    from vf.harness import tree as _tree

    @st.composite
    def cases(draw):
        files = {}
        for i in range(draw(st.integers(1, 6))):
            ext = draw(st.sampled_from(sorted(SHARED_LINE_SOURCES)))
            d = draw(st.sampled_from(["", "src/", "src/core/", "lib/a/b/", "zz/"]))
            if draw(st.booleans()):
                text = draw(st.sampled_from(SHARED_LINE_SOURCES[ext]))
            else:
                lang = {v: k for k, v in _tree.EXT.items()}[ext]
                ls = draw(st.lists(st.sampled_from([1, 2, 5, 15, 16, 30, 31, 60, 61, 70]), min_size=1, max_size=4))
                text = _tree.flat_file(lang, [max(2, v) for v in ls] if lang == "Python" else ls)
            files[f"{d}m{i}.{ext}"] = text
        return {"kind": "scanned", "files": files}

    def body(case):
        shared = any(v in SHARED_LINE_SOURCES[k.rsplit(".", 1)[1]] for k, v in case["files"].items())
        col.eval(case, nontrivial=shared and len(case["files"]) >= 2, labels=["scanned-tree"] + (["functions-sharing-a-line"] if shared else []))

    run_given(body, cases(), seed, n)


def plan(tier, seed):
    total = 4800 if tier == "quick" else 80000
    jobs = [("gen", {"seed": shard_seed(seed, ID, i), "n": total // 16, "wild": i % 4 == 3, "clash": i % 4 == 2}) for i in range(16)]
    nsc = 160 if tier == "quick" else 4000
    jobs += [("gen_scanned", {"seed": shard_seed(seed, ID, f"s{i}"), "n": nsc // 8}) for i in range(8)]
    return jobs
