"""C02 - the thresholds 15 / 30 / 60 and the refactoring alarm are applied consistently.

Part A : every length L in 1..200 (and a few large ones), exhaustively, at every per-value site: make_profile,
         make_count_profile, SourceFileEntry.profile, LanguageTotals.add, CheckResult.add, get_style_for_measurement,
         get_emoji_for_measurement, format_unit, format_measurement, Report.all_report_units_sorted_by_length_asc(30)
         as used by both print_findings (text + Markdown, with and without repository, incl. the Markdown severity symbol).
Part B : Hypothesis multisets of lengths (boundary biased, 0..40 functions) spread over 1..6 files in 1..4 languages,
         written as real source files of flat functions with exactly L code lines and run through
         check_command(paths, quiet) in both quiet modes, paths given as files or as the directory.
Oracle : vf/ref/classify.py (the table written once). check exits 1 iff some L > 60; lists exactly the functions with
         L > 30, longest first within each file, with the right symbol; 'N functions need refactoring' = their number;
         under --quiet the output is empty iff there is none.
"""
from __future__ import annotations

import io

from hypothesis import strategies as st

from vf.common import call_sut, run_given, shard_seed
from vf.harness import cli, tree
from vf.ref.classify import category, is_finding, is_unmaintainable

ID = "C02"
LEVEL = "exploration"
RULE = (
    "A: every L in 1..200 plus 201..100000 in steps, at 11 classification sites (enumerated once each); "
    "B: Hypothesis multisets of function lengths over 1..6 real source files in C/Java/JavaScript/Python/TypeScript/C++/C# "
    "(a quarter of them stored as ISO-8859-1) x quiet on/off x paths-as-files/as-directory through the check entry point. Non-trivial = the case contains a length "
    "within 2 of a boundary (13..17, 28..32, 58..62); distinct by digest of (files, lengths, mode)"
)
ASSUMPTIONS = [
    "part B uses flat functions only, whose measured length does not depend on the nesting logic (that is C01's subject)",
    "the check entry function of codelimit.__main__ is called in-process with stdout captured (the sandbox's typer/click pair mis-parses --quiet on the real command line)",
    "colour is observed at the API level (rich Style), symbols also in the rendered output; WHICH colour / symbol a category gets is read off the tool at one length well inside each category (7, 23, 45, 100) - "
    "every other length must be shown like its category's representative, and easy / hard-to-maintain / unmaintainable must be shown differently",
]
FLOOR = {"quick": 300, "thorough": 4000}
EXHAUSTIVE = "part A: every L in 1..200 at every site (part B is sampled)"


def _m(v, name="f", extra_span=0):
    """extra_span: lines of the span that do not count (blank / comment lines, nested functions)"""
    from codelimit.common.Location import Location
    from codelimit.common.Measurement import Measurement

    return Measurement(name, Location(3, 5), Location(3 + max(v, 1) - 1 + extra_span, 2), v)


def _color(style):
    return style.color.name if style is not None and style.color is not None else None


REPRESENTATIVE = {0: 7, 1: 23, 2: 45, 3: 100}  # one length well inside each category
_SHOWN = {}


def shown_as():
    """How the tool itself shows each category at a length well inside it: {category: colour}, {category: symbol of the
    check / findings line}, {category: Markdown severity symbol}. Which colours and symbols those are is the tool's
    choice; the property is that every length of a category is shown like its representative, and that the two finding
    categories are told apart from each other and from the easy one."""
    if _SHOWN:
        return _SHOWN
    from codelimit.common import utils as U

    color, symbol = {}, {}
    for cat, L in REPRESENTATIVE.items():
        color[cat] = _color(U.get_style_for_measurement(L))
        plain = U.format_measurement("a.py", _m(L)).plain
        after = plain.split(f" {L} ", 1)[1] if f" {L} " in plain else ""
        symbol[cat] = after.split(" ", 1)[0]
    problems = []
    if len({color[0], color[2], color[3]}) < 3:
        problems.append(f"colours do not tell easy / hard-to-maintain / unmaintainable apart: {color}")
    if len({symbol[0], symbol[2], symbol[3]}) < 3 or not all(symbol.values()):
        problems.append(f"symbols do not tell easy / hard-to-maintain / unmaintainable apart: {symbol}")
    _SHOWN.update(color=color, symbol=symbol, problems=problems)
    return _SHOWN


def _render(fn):
    from rich.console import Console

    buf = io.StringIO()
    console = Console(file=buf, width=400, force_terminal=False, color_system=None, soft_wrap=True)
    fn(console)
    return buf.getvalue()


def check_sites(L, extra_span=0):
    """All per-value sites for one length. -> None | (bucket, message)"""
    from pathlib import Path

    from codelimit.common import utils as U
    from codelimit.common.CheckResult import CheckResult
    from codelimit.common.Codebase import Codebase
    from codelimit.common.GithubRepository import GithubRepository
    from codelimit.common.LanguageTotals import LanguageTotals
    from codelimit.common.SourceFileEntry import SourceFileEntry
    from codelimit.common.report import format_markdown, format_text
    from codelimit.common.report.Report import Report

    cat = category(L)
    shown = shown_as()
    if shown["problems"]:
        return ("categories-not-distinguishable", "; ".join(shown["problems"]))
    m = _m(L, extra_span=extra_span)
    want_profile = [0, 0, 0, 0]
    want_profile[cat] = L
    want_count = [0, 0, 0, 0]
    want_count[cat] = 1

    def site(name, fn, want):
        r = call_sut(fn)
        if r[0] == "exc":
            return (f"{name}:{r[1]}", f"L={L}: {r[2]}")
        if r[1] != want:
            return (name, f"L={L}: {name} gives {r[1]!r}, the threshold table says {want!r}")
        return None

    entry = SourceFileEntry("a.py", "x", "Python", L, [m])

    def lt():
        t = LanguageTotals("Python")
        t.add(entry)
        return (t.hard_to_maintain, t.unmaintainable)

    def cr():
        c = CheckResult()
        c.add(Path("a.py"), [m])
        return (c.hard_to_maintain, c.unmaintainable)

    def unit_color(Lx=L):
        t = U.format_unit("f", Lx)
        cols = [_color(sp.style) for sp in t.spans if sp.style is not None and not isinstance(sp.style, str)]
        return cols[0] if cols else None

    def fm_shown(Lx=L):
        """(colours of the length and of the symbol, the symbol) of one check / findings line"""
        mx = _m(Lx, extra_span=extra_span)
        t = U.format_measurement("a.py", mx)
        plain = t.plain
        sym = plain.split(f" {Lx} ", 1)[1].split(" ", 1)[0] if f" {Lx} " in plain else None
        cols = set()
        for sp in t.spans:
            seg = plain[sp.start : sp.end]
            if seg in (str(Lx), sym):
                cols.add(_color(sp.style) if not isinstance(sp.style, str) else sp.style)
        return (sorted(map(str, cols)), sym)

    rep = REPRESENTATIVE[cat]
    hm = (1 if cat == 2 else 0, 1 if cat == 3 else 0)
    for bad in (
        site("make_profile", lambda: U.make_profile([m]), want_profile),
        site("make_count_profile", lambda: U.make_count_profile([m]), want_count),
        site("SourceFileEntry.profile", lambda: list(entry.profile()), want_profile),
        site("LanguageTotals.add", lt, hm),
        site("CheckResult.add", cr, hm),
        # shown like the category's representative, site by site (which colour / symbol a site uses is the tool's choice)
        site("get_style_for_measurement", lambda: _color(U.get_style_for_measurement(L)), _color(U.get_style_for_measurement(rep))),
        site("get_emoji_for_measurement", lambda: U.get_emoji_for_measurement(L), U.get_emoji_for_measurement(rep)),
        site("format_unit", unit_color, unit_color(rep)),
        site("format_measurement", fm_shown, fm_shown(rep)),
    ):
        if bad:
            return bad
    # findings list: Report.all_report_units_sorted_by_length_asc(30) and both renderers
    cb = Codebase("/")
    cb.add_file(entry)
    cb.aggregate()
    for repo in (None, GithubRepository("o", "n", branch="b")):
        report = Report(cb, repo)
        bad = site("report_units(30)", lambda: [u.measurement.value for u in report.all_report_units_sorted_by_length_asc(30)], [L] if is_finding(L) else [])
        if bad:
            return bad
        r = call_sut(_render, lambda c: format_text.print_findings(c, report, False))
        if r[0] == "exc":
            return (f"print_findings:text:{r[1]}", f"L={L}: {r[2]}")
        listed = f": {L} " in r[1]
        if listed != is_finding(L):
            return ("print_findings:text", f"L={L}: listed={listed}\n{r[1]}")
        r = call_sut(_render, lambda c: format_markdown.print_findings(report, c, False))
        if r[0] == "exc":
            return (f"print_findings:markdown:{r[1]}", f"L={L}: {r[2]}")
        rows = [ln for ln in r[1].splitlines() if ln.startswith("|") and "---" not in ln and "**" not in ln]
        if (len(rows) == 1) != is_finding(L):
            return ("print_findings:markdown", f"L={L}: rows={rows}")
        if rows:
            md = _markdown_symbols(repo is not None)
            got_sym = _md_symbol(rows[0], L)
            if md[2] == md[3] or got_sym != md[cat]:
                return ("print_findings:markdown-symbol", f"L={L}: row {rows[0]!r} carries {got_sym!r}; a {45}-line function is shown with {md[2]!r}, a {100}-line one with {md[3]!r}")
    return None


_MD = {}


def _md_symbol(row, L):
    """The severity symbol of a Markdown findings row: the first non-alphanumeric token of the function cell."""
    cells = [c.strip() for c in row.strip().strip("|").split("|")]
    cell = cells[0] if len(cells) == 3 else cells[-1]
    tok = cell.split(" ", 1)[0]
    return tok


def _markdown_symbols(with_repo):
    if with_repo not in _MD:
        from codelimit.common.Codebase import Codebase
        from codelimit.common.GithubRepository import GithubRepository
        from codelimit.common.SourceFileEntry import SourceFileEntry
        from codelimit.common.report import format_markdown
        from codelimit.common.report.Report import Report

        out = {}
        for cat in (2, 3):
            L = REPRESENTATIVE[cat]
            cb = Codebase("/")
            cb.add_file(SourceFileEntry("a.py", "x", "Python", L, [_m(L)]))
            cb.aggregate()
            report = Report(cb, GithubRepository("o", "n", branch="b") if with_repo else None)
            text = _render(lambda c: format_markdown.print_findings(report, c, False))
            rows = [ln for ln in text.splitlines() if ln.startswith("|") and "---" not in ln and "**" not in ln]
            out[cat] = _md_symbol(rows[0], L) if rows else None
        _MD[with_repo] = out
    return _MD[with_repo]


def enum_sites(col, values):
    n = nt = 0
    for L in values:
        n += 1
        near = any(abs(L - b) <= 2 for b in (15, 30, 60))
        nt += near
        res = check_sites(L)
        if res:
            col.fail({"kind": "sites", "L": L}, res[0], res[1])
        elif near:
            col.sample({"kind": "sites", "L": L})
        for extra in (1, 35, 70):  # the span of a function may be longer than its length: only the length decides
            res = check_sites(L, extra)
            n += 1
            nt += near
            if res:
                col.fail({"kind": "sites", "L": L, "extra_span": extra}, res[0] + ":span>length", res[1] + f" (span {L + extra} lines)")
    col.bulk(n, nt)
    col.label("A:lengths", )


# --------------------------------------------------------------------------- part B: check end to end

LANGS = ["C", "Java", "JavaScript", "Python", "TypeScript", "C++", "C#"]
_len = st.one_of(st.sampled_from([13, 14, 15, 16, 17, 28, 29, 30, 31, 32, 58, 59, 60, 61, 62]), st.integers(1, 75), st.integers(2, 12))


@st.composite
def check_cases(draw):
    nfiles = draw(st.integers(1, 6))
    files = []
    for i in range(nfiles):
        lang = draw(st.sampled_from(LANGS))
        ls = draw(st.one_of(st.lists(_len, min_size=0, max_size=8), st.lists(st.sampled_from([29, 30, 31, 32, 60, 61]), min_size=1, max_size=1)))
        if lang == "Python":
            ls = [max(2, v) for v in ls]
        sub = draw(st.sampled_from(["", "", "src/", "lib/core/"]))
        f = {"path": f"{sub}m{i}.{tree.EXT[lang]}", "language": lang, "lengths": ls}
        if draw(st.integers(0, 2)) == 0:
            f["no_final_newline"] = True  # the last line of the file is not newline-terminated
        if draw(st.integers(0, 3)) == 0:
            f["encoding"] = "latin-1"  # a leading comment line with a non-ASCII letter, stored as ISO-8859-1 (not valid UTF-8)
        files.append(f)
    return {"kind": "check", "files": files, "quiet": draw(st.booleans()), "via": draw(st.sampled_from(["files", "files", "dir", "reversed"]))}


def run_check_case(case):
    files = case["files"]
    content = {}
    for f in files:
        text = tree.flat_file(f["language"], f["lengths"])
        if f.get("no_final_newline"):
            text = text.rstrip("\n")
        if f.get("encoding") == "latin-1":
            content[f["path"]] = (("# début\n" if f["language"] == "Python" else "// début\n") + text).encode("latin-1")
        else:
            content[f["path"]] = text
    with tree.temp_tree(content) as root:
        if case["via"] == "dir":
            paths = ["."]
        elif case["via"] == "reversed":
            paths = [f["path"] for f in reversed(files)]
        else:
            paths = [f["path"] for f in files]
        res = cli.run_check(root, paths, quiet=case["quiet"])
    if res.exc:
        return (f"check:{res.exc[0]}", res.exc[1])
    alll = [v for f in files for v in f["lengths"]]
    want_code = 1 if any(is_unmaintainable(v) for v in alll) else 0
    if res.code != want_code:
        return ("check:exit-status", f"exit status {res.code}, expected {want_code} for lengths {sorted(alll)}\n{res.out}")
    nfind = sum(1 for v in alll if is_finding(v))
    if case["quiet"] and nfind == 0:
        if res.out.strip():
            return ("check:quiet-not-silent", f"--quiet with no function > 30 printed:\n{res.out}")
        return None
    if not res.out.strip():
        return ("check:silent", f"nothing printed although quiet={case['quiet']} and {nfind} function(s) > 30")
    parsed = cli.parse_check_output(res.out)
    bad = cli.summary_matches(parsed, len(files), nfind)
    if bad:
        return ("check:summary-count" if "refactoring" in bad else "check:files-checked", f"{bad} (lengths {sorted(alll)})\n{res.out}")
    by_file = {}
    for path, line, colm, ln, sym, name in parsed["findings"]:
        by_file.setdefault(path, []).append((ln, sym, name))
    for f in files:
        names = [f"fn{i}" for i in range(len(f["lengths"]))]
        want = sorted([(v, shown_as()["symbol"][category(v)], n) for v, n in zip(f["lengths"], names) if is_finding(v)], key=lambda t: -t[0])
        got = by_file.pop(f["path"], [])
        if sorted(got) != sorted(want):
            return ("check:listing", f"{f['path']} (lengths {f['lengths']}): listed {got}, expected {want}")
        if [g[0] for g in got] != sorted([g[0] for g in got], reverse=True):
            return ("check:order", f"{f['path']}: listed lengths {[g[0] for g in got]} are not longest first")
    if by_file:
        return ("check:extra-files", f"findings for unexpected paths {sorted(by_file)}")
    return None


def run_case(case):
    if case["kind"] == "sites":
        return check_sites(case["L"], case.get("extra_span", 0))
    return run_check_case(case)


def shrink_candidates(case):
    if case["kind"] != "check":
        return
    fs = case["files"]
    if case["via"] != "files":
        yield dict(case, via="files")
    for i in range(len(fs)):
        if len(fs) > 1:
            yield dict(case, files=fs[:i] + fs[i + 1 :])
    for i, f in enumerate(fs):
        for j in range(len(f["lengths"])):
            yield dict(case, files=fs[:i] + [dict(f, lengths=f["lengths"][:j] + f["lengths"][j + 1 :])] + fs[i + 1 :])


def gen_check(col, seed, n):
    def body(case):
        alll = [v for f in case["files"] for v in f["lengths"]]
        near = any(abs(v - b) <= 2 for v in alll for b in (15, 30, 60))
        labels = ["quiet" if case["quiet"] else "loud", f"via:{case['via']}"] + (["has-latin-1-file"] if any(f.get("encoding") for f in case["files"]) else [])
        if any(v > 60 for v in alll):
            labels.append("has>60")
        elif any(v > 30 for v in alll):
            labels.append("has31..60-only")
        else:
            labels.append("no-findings")
        col.eval(case, nontrivial=near, labels=labels)

    run_given(body, check_cases(), seed, n)


def plan(tier, seed):
    vals = list(range(1, 201)) + [250, 999, 1000, 1001, 5000, 100000]
    jobs = [("enum_sites", {"values": vals[i::4]}) for i in range(4)]
    total = 640 if tier == "quick" else 8000
    for i in range(12):
        jobs.append(("gen_check", {"seed": shard_seed(seed, ID, i), "n": total // 12}))
    return jobs
