"""C09 - cache-assisted scans equal fresh scans over any edit history.

Domain : histories over a small universe - 6 paths (two with the same basename in different folders, two languages, one
         excluded by default, one hidden) x 5 contents (two differing only in one function's length, one malformed, one
         empty). Operations: write, write with an old mtime, delete, rename, touch (mtime only), swap contents, set exclusions (option list /
         .codelimit.yml / root .gitignore), replace the cache by one from another version (same document with another / no / null version,
         perturbed measurements), alter cache entries (drop an entry, add an entry for a missing path, change a checksum,
         move an entry to another path), scan. Hypothesis rule-based state machine (histories up to 25 / 50 steps) plus
         bounded-exhaustive enumeration of all operation sequences up to length 2 (thorough 3) followed by a scan, those of
         length 2 also with a scan in between.
Oracle : after every scan: the cache the scan wrote == a from-scratch scan_path of the same tree in the same
         configuration (uuid / timestamp dropped, files as a mapping, folder entries sorted); the set of paths handed to
         Scanner._analyze_file (wrapped) contains every file whose (path, bytes) is not in the cache as written by the
         same version, and is all files when the cache came from another version; report and findings exit 1 with the
         mismatch message on an other-version cache and succeed on a same-version one.
"""
from __future__ import annotations

import hashlib
import itertools
import json
import os
import shutil
import tempfile
from pathlib import Path

import hypothesis
from hypothesis import HealthCheck, Phase, settings
from hypothesis import strategies as st
from hypothesis.stateful import RuleBasedStateMachine, invariant, precondition, rule, run_state_machine_as_test

from vf.common import call_sut, digest, shard_seed
from vf.harness import cli, tree
from vf.harness.probe import AnalysisProbe

ID = "C09"
LEVEL = "exploration"
RULE = (
    "histories = operation sequences over {write, write keeping an old mtime, delete, rename, touch, swap, set exclusions, other-version cache, "
    "alter cache entry, scan} on 6 paths x 5 contents: (a) every sequence of 1..2 (thorough 3) operations from a "
    "reduced alphabet followed by a scan, with and without a scan after the first operation, from an initial scanned "
    "tree (enumerated once each); (b) Hypothesis RuleBasedStateMachine histories of up to 25 (thorough 50) steps; (c) fixed histories around a source file larger than 64 KiB. "
    "Non-trivial = at least two scans with a content-changing operation between them; distinct by digest of the history"
)
ASSUMPTIONS = [
    "'fresh' is the tool's own from-scratch scan_path of the same tree in the same configuration, so the check does not depend on what the right measurements are",
    "altered cache entries never keep a matching checksum together with different stored numbers (no cache could detect that)",
    "scan / report / findings run in-process through their entry functions in codelimit.__main__ (Configuration reset first)",
    "which files a scan re-analyses is observed at Scanner._analyze_file through a signature-agnostic probe; when that private function is gone or silent the observation is skipped (labelled) and the report comparison alone decides",
]
FLOOR = {"quick": 300, "thorough": 8000}

PATHS = ["src/app.py", "lib/app.py", "src/util.js", "tests/t.py", ".hidden.py", "gen/out.c"]


def _py(lengths):
    return tree.flat_file("Python", lengths)


CONTENTS = [
    _py([5, 32]),
    _py([5, 33]),  # differs from content 0 in one function's length only
    tree.flat_file("JavaScript", [3, 61]).replace("function fn1(", "function fn0(", 1),  # both functions carry the SAME name: measurements are a list, not a name-keyed map
    "def f(\n",  # malformed
    "",
    _py([5, 32]).replace("\n\ndef ", "\n\r\ndef ", 1),  # content 0 with one lone carriage return (a line break to the tool) and nothing else changed
    _py([60] * 110 + [5]),   # 6: a file of well over 64 KiB ...
    _py([60] * 110 + [40]),  # 7: ... and the same file with only its last function changed (the size stays within the same 64 KiB multiple)
    _py([60] * 55 + [7]),    # 8: half as big
]
BIG_CONTENTS = (6, 7, 8)  # not part of the enumerated alphabet / the machine's rules (each scan lexes > 100 KiB): see big_file_histories
EXCLUSIONS = [[], ["gen/"], ["*.js"], ["src/app.py"], ["lib/*"], ["app.py"]]
INITIAL = {"src/app.py": 0, "lib/app.py": 1, "src/util.js": 2, "tests/t.py": 0, ".hidden.py": 0}
OTHER_VERSION = "0.0.1-other"


# --------------------------------------------------------------------------- executing a history


class World:
    """A temp codebase + a plain-dict model of it + a model of what the cache holds."""

    def __init__(self):
        self.base = tempfile.mkdtemp(prefix="vf-c09-")
        self.root = Path(self.base).resolve() / "root"
        self.root.mkdir()
        self.files = {}  # path -> bytes
        self.option = []
        self.cache = None  # None (no cache) | {"version": str, "entries": {path: md5}}
        self.probe_unusable = False
        self.scans = 0
        self.changed_since_scan = False
        self.nontrivial = False
        for p, c in INITIAL.items():
            self._write(p, CONTENTS[c].encode())

    def close(self):
        shutil.rmtree(self.base, ignore_errors=True)

    def _write(self, p, data):
        f = self.root / p
        f.parent.mkdir(parents=True, exist_ok=True)
        f.write_bytes(data)
        self.files[p] = data

    def cache_path(self):
        return self.root / ".codelimit_cache" / "codelimit.json"

    # ---- operations: each returns None or a failure (bucket, message)
    def apply(self, op):
        k = op[0]
        if k == "write":
            self._write(op[1], CONTENTS[op[2]].encode())
            self.changed_since_scan = True
        elif k == "delete":
            if op[1] in self.files:
                (self.root / op[1]).unlink()
                del self.files[op[1]]
                self.changed_since_scan = True
        elif k == "rename":
            a, b = op[1], op[2]
            if a in self.files and a != b:
                data = self.files.pop(a)
                (self.root / a).unlink()
                self._write(b, data)
                self.changed_since_scan = True
        elif k == "write_old":
            # another revision restored together with its old modification time (cp -p, rsync -t, unpacking an archive)
            self._write(op[1], CONTENTS[op[2]].encode())
            os.utime(self.root / op[1], (978_307_200, 978_307_200))
            self.changed_since_scan = True
        elif k == "touch":
            if op[1] in self.files:
                os.utime(self.root / op[1], (1_000_000_000 + self.scans, 1_000_000_000 + self.scans))
        elif k == "swap":
            a, b = op[1], op[2]
            if a in self.files and b in self.files and a != b:
                da, db = self.files[a], self.files[b]
                self._write(a, db)
                self._write(b, da)
                self.changed_since_scan = True
        elif k == "exclude":
            src, pats = op[1], EXCLUSIONS[op[2]]
            if src == "option":
                self.option = list(pats)
            elif src == "yml":
                f = self.root / ".codelimit.yml"
                if pats:
                    f.write_text("exclude:\n" + "".join(f"  - {json.dumps(p)}\n" for p in pats))
                elif f.exists():
                    f.unlink()
            else:
                f = self.root / ".gitignore"
                if pats:
                    f.write_text("".join(p + "\n" for p in pats))
                elif f.exists():
                    f.unlink()
        elif k == "other_version":
            return self.other_version(op[1] if len(op) > 1 else "other")
        elif k == "alter":
            self.alter(op[1], op[2])
        elif k == "scan":
            return self.scan()
        else:
            raise ValueError(op)
        return None

    def other_version(self, mode="other"):
        """mode: 'other' = another version string; 'missing' = a document that predates the version field; 'null'."""
        cp = self.cache_path()
        if not cp.exists():
            return None
        doc = json.loads(cp.read_text())
        current = str(doc.get("version"))
        if mode == "missing":
            doc.pop("version", None)
        elif mode == "substring":
            doc["version"] = current[: max(1, len(current) - 2)]  # e.g. 0.18 for 0.18.1
        elif mode == "superstring":
            doc["version"] = current + ".post1"
        else:
            doc["version"] = OTHER_VERSION if mode == "other" else None
        for entry in doc["codebase"]["files"].values():
            if not isinstance(entry, dict):
                continue
            for m in entry["measurements"]:
                m["value"] += 7  # as another version's analysis might have measured
            entry["loc"] = sum(m["value"] for m in entry["measurements"])
        cp.write_text(json.dumps(doc, indent=2))
        if self.cache is not None:
            self.cache["version"] = f"<{mode}>"
        for name, fn in (("report", cli.run_report), ("findings", cli.run_findings)):
            res = fn(self.root, ".")
            if res.exc:
                return (f"{name}:other-version:{res.exc[0]}", res.exc[1])
            from vf.props.c18 import parse_findings_text, parse_overview_text

            shows = bool(parse_overview_text(res.out)[0]) or bool(parse_findings_text(res.out)[0])
            if not res.code or shows:  # a refusal = a non-zero exit status and no report content, in whatever words
                return (f"{name}:shows-other-version", f"{name} on a cache whose version is {mode!r} ({doc.get('version', '<absent>')!r}): exit {res.code}, output {res.out[:300]!r}")
        return None

    def alter(self, kind, path):
        cp = self.cache_path()
        if not cp.exists() or self.cache is None:
            return
        doc = json.loads(cp.read_text())
        files = doc["codebase"]["files"]
        if path in files and not isinstance(files[path], dict) and kind != "drop":
            return  # already replaced by a wrong-shaped entry
        if kind == "drop" and path in files:
            del files[path]
            self.cache["entries"].pop(path, None)
        elif kind == "add_missing" and path not in files and path not in self.files:
            files[path] = {"checksum": "0" * 32, "language": "Python", "loc": 99, "profile": [0, 0, 0, 99], "measurements": [
                {"unit_name": "ghost", "start": {"line": 1, "column": 1}, "end": {"line": 99, "column": 1}, "value": 99}]}
            self.cache["entries"][path] = "0" * 32
        elif kind == "checksum" and path in files:
            files[path]["checksum"] = "f" * 32
            for m in files[path]["measurements"]:
                m["value"] += 3
            self.cache["entries"][path] = "f" * 32
        elif kind == "null" and path in files:
            # an entry of the wrong shape in an otherwise intact cache of this version: the whole cache is then not trustworthy
            files[path] = None
            self.cache["entries"][path] = None  # marker: while it is there nothing from this cache may be reused
        elif kind == "move" and path in files:
            # only to a path of the same language: an entry whose language contradicts its own path cannot stem from any scan,
            # and would be indistinguishable from a valid entry once a file with that content appears there
            ext = path.rsplit(".", 1)[-1]
            others = [p for p in PATHS if p != path and p.rsplit(".", 1)[-1] == ext and self.files.get(p) != self.files.get(path)]
            if others:
                dst = others[0]
                files[dst] = files.pop(path)
                self.cache["entries"][dst] = self.cache["entries"].pop(path, "?")
        cp.write_text(json.dumps(doc, indent=2))

    def scan(self):
        from codelimit.common import Scanner
        from codelimit.common.Configuration import Configuration
        from codelimit.common.report.Report import Report
        from codelimit.common.report.ReportWriter import ReportWriter

        probe = AnalysisProbe(self.root, PATHS)
        with probe:
            res = cli.run_scan(self.root, ".", excludes=self.option)
        seen = probe.seen
        self.scans += 1
        if self.scans >= 2 and self.changed_since_scan:
            self.nontrivial = True
        self.changed_since_scan = False
        if res.exc:
            return (f"scan:{res.exc[0]}", res.exc[1])
        if res.code != 0:
            return ("scan:exit-status", f"scan exit {res.code}\n{res.out[-500:]}")
        cp = self.cache_path()
        try:
            written = json.loads(cp.read_text())
        except Exception as e:  # noqa: BLE001
            return ("scan:cache-not-written", f"{type(e).__name__}: {e}")

        # fresh scan of the same tree, same configuration, no cache
        def fresh():
            cli.reset_config()
            cli.add_excludes(self.option)
            Configuration.load(Path("."))
            cb = Scanner.scan_path(Path("."))
            cb.aggregate()
            return json.loads(ReportWriter(Report(cb)).to_json())

        old = os.getcwd()
        os.chdir(self.root)
        try:
            r = call_sut(fresh)
        finally:
            os.chdir(old)
            cli.reset_config()
        if r[0] == "exc":
            return (f"fresh-scan:{r[1]}", r[2])
        a, b = normalise(written), normalise(r[1])
        if a != b:
            return ("cached-differs-from-fresh", f"{first_diff(a, b)}")
        # the overview the scan printed shows the totals it stored (scans repeated in one process must not accumulate)
        from vf.props.c18 import COLS, parse_overview_text

        cut = res.out.find("Summary")
        try:
            rows, totals = parse_overview_text(res.out[: cut if cut >= 0 else None])
        except ValueError as e:
            return ("scan-overview-unparseable", f"{e}\n{res.out[:600]}")
        stored = written["codebase"]["totals"]
        shown = {name: {c: v[0] for c, v in zip(COLS, cells)} for name, cells in rows}
        if shown != {k: {c: v[c] for c in COLS} for k, v in stored.items()}:
            return ("scan-overview-differs-from-report", f"overview printed by scan {shown} vs totals stored in the report {stored}")
        # re-analysis obligations
        fresh_files = r[1]["codebase"]["files"]
        must = set()
        for p in fresh_files:
            md5 = hashlib.md5(self.files[p]).hexdigest()
            broken = self.cache is not None and any(v is None for v in self.cache["entries"].values())
            if self.cache is None or broken or self.cache["version"] != written["version"] or self.cache["entries"].get(p) != md5:
                must.add(p)
        if not probe.usable(len(must)):
            self.probe_unusable = True  # the observation point is gone: only the report comparison above decides
        elif not must <= set(seen):
            return ("stale-entry-reused", f"files {sorted(must - set(seen))} changed (or the cache was not trustworthy) but were not re-analysed; analysed {sorted(seen)}")
        if probe.usable(len(must)) and (len(seen) != len(set(seen)) or not set(seen) <= set(fresh_files)):
            return ("analysed-unexpected-files", f"analysed {sorted(seen)}, files in report {sorted(fresh_files)}")
        self.cache = {"version": written["version"], "entries": {p: e["checksum"] for p, e in written["codebase"]["files"].items()}}
        for name, fn in (("report", cli.run_report), ("findings", cli.run_findings)):
            res = fn(self.root, ".")
            if res.exc:
                return (f"{name}:{res.exc[0]}", res.exc[1])
            if res.code != 0:
                return (f"{name}:refuses-own-cache", f"{name} after a scan: exit {res.code}, output {res.out[:300]!r}")
        return None


def normalise(doc):
    d = json.loads(json.dumps(doc))
    d.pop("uuid", None)
    d.pop("timestamp", None)
    for v in d.get("codebase", {}).get("tree", {}).values():
        v["entries"] = sorted(v["entries"])
    d["codebase"]["files"] = dict(sorted(d["codebase"]["files"].items()))
    d["codebase"]["tree"] = dict(sorted(d["codebase"]["tree"].items()))
    d["codebase"]["totals"] = dict(sorted(d["codebase"]["totals"].items()))
    return d


def first_diff(a, b, path="$"):
    if type(a) != type(b):
        return f"{path}: {a!r} (cached scan) vs {b!r} (fresh scan)"
    if isinstance(a, dict):
        for k in sorted(set(a) | set(b)):
            if k not in a:
                return f"{path}: key {k!r} only in the fresh scan"
            if k not in b:
                return f"{path}: key {k!r} only in the cached scan"
            d = first_diff(a[k], b[k], f"{path}[{k!r}]")
            if d:
                return d
        return None
    if isinstance(a, list):
        if len(a) != len(b):
            return f"{path}: {a!r} (cached scan) vs {b!r} (fresh scan)"
        for i, (x, y) in enumerate(zip(a, b)):
            d = first_diff(x, y, f"{path}[{i}]")
            if d:
                return d
        return None
    return None if a == b else f"{path}: {a!r} (cached scan) vs {b!r} (fresh scan)"


def run_history(ops):
    """-> (failure | None, nontrivial, scans)"""
    w = World()
    try:
        for i, op in enumerate(ops):
            bad = w.apply(tuple(op))
            if bad:
                return (bad[0], f"after step {i + 1} of {len(ops)} ({op}): {bad[1]}\nhistory: {ops}"), w.nontrivial, w.scans
        return None, w.nontrivial, w.scans
    finally:
        w.close()


def run_case(case):
    bad, _, _ = run_history(case["ops"])
    return bad


def shrink_candidates(case):
    ops = case["ops"]
    for i in range(len(ops)):
        yield {"ops": ops[:i] + ops[i + 1 :]}


# --------------------------------------------------------------------------- (a) bounded-exhaustive sequences


def alphabet(tier):
    paths = PATHS[:4] if tier == "quick" else PATHS
    contents = [1, 3, 5] if tier == "quick" else [0, 1, 2, 3, 4, 5]
    ops = []
    for p in paths:
        for c in contents:
            ops.append(("write", p, c))
        ops.append(("delete", p))
        ops.append(("touch", p))
    for p in paths[:2]:
        ops.append(("write_old", p, contents[0]))
    for a, b in itertools.permutations(paths[:3] if tier == "quick" else paths[:4], 2):
        ops.append(("rename", a, b))
    for a, b in itertools.combinations(paths[:3], 2):
        ops.append(("swap", a, b))
    for src in ("option", "yml", "gitignore"):
        for e in ((1, 3) if tier == "quick" else range(1, len(EXCLUSIONS))):
            ops.append(("exclude", src, e))
    ops.append(("other_version", "other"))
    ops.append(("other_version", "missing"))
    ops.append(("other_version", "substring"))
    if tier != "quick":
        ops.append(("other_version", "null"))
        ops.append(("other_version", "superstring"))
    for kind in ("drop", "add_missing", "checksum", "move", "null"):
        for p in (["src/app.py", "gen/out.c"] if tier == "quick" else ["src/app.py", "lib/app.py", "src/util.js", "gen/out.c"]):
            if kind != "null" or p == "src/app.py":
                ops.append(("alter", kind, p))
    return ops


def enum_sequences(col, tier, part, nparts, length):
    ops = alphabet(tier)
    idx = 0
    n = nt = 0
    for seq in itertools.product(ops, repeat=length):
        for mid_scan in ((False, True) if length == 2 else (False,)):
            idx += 1
            if idx % nparts != part:
                continue
            hist = [("scan",)]
            for i, op in enumerate(seq):
                hist.append(op)
                if mid_scan and i < length - 1:
                    hist.append(("scan",))
            hist.append(("scan",))
            hist = [list(o) for o in hist]
            bad, nontrivial, scans = run_history(hist)
            n += 1
            nt += nontrivial
            if bad:
                col.fail({"ops": hist}, bad[0], bad[1])
            elif nontrivial and n % 211 == 0:
                col.sample({"ops": hist}, force=len(col.samples) < 3)
    col.bulk(n, nt)
    col.label(f"enumerated:length{length}")


def big_file_histories(col):
    """Deterministic histories around a source file larger than 64 KiB whose edits stay in its tail."""
    n = nt = 0
    for path in ("src/app.py", "lib/app.py"):
        for seq in ([6, 7], [7, 6], [6, 7, 6], [8, 6, 7], [6, 8, 7]):
            hist = [["scan"]]
            for c in seq:
                hist += [["write", path, c], ["scan"]]
            bad, nontrivial, scans = run_history(hist)
            n += 1
            nt += 1
            if bad:
                col.fail({"ops": hist}, bad[0], bad[1])
    col.bulk(n, nt)
    col.label("big-file-histories")


# --------------------------------------------------------------------------- (b) Hypothesis rule-based state machine


def make_machine(col):
    paths = st.sampled_from(PATHS)

    class CacheHistory(RuleBasedStateMachine):
        def __init__(self):
            super().__init__()
            self.world = World()
            self.ops = []
            self.failed = None

        def _do(self, op):
            self.ops.append(list(op))
            if self.failed is None:
                bad = self.world.apply(op)
                if bad:
                    self.failed = (bad[0], f"after step {len(self.ops)} ({list(op)}): {bad[1]}\nhistory: {self.ops}")

        @rule(p=paths, c=st.integers(0, len(CONTENTS) - 1 - len(BIG_CONTENTS)))
        def write(self, p, c):
            self._do(("write", p, c))

        @rule(p=paths)
        def delete(self, p):
            self._do(("delete", p))

        @rule(a=paths, b=paths)
        def rename(self, a, b):
            self._do(("rename", a, b))

        @rule(p=paths)
        def touch(self, p):
            self._do(("touch", p))

        @rule(p=paths, c=st.integers(0, len(CONTENTS) - 1 - len(BIG_CONTENTS)))
        def write_old(self, p, c):
            self._do(("write_old", p, c))

        @rule(a=paths, b=paths)
        def swap(self, a, b):
            self._do(("swap", a, b))

        @rule(src=st.sampled_from(["option", "yml", "gitignore"]), e=st.integers(0, len(EXCLUSIONS) - 1))
        def exclude(self, src, e):
            self._do(("exclude", src, e))

        @precondition(lambda self: self.world.scans > 0)
        @rule(mode=st.sampled_from(["other", "missing", "null", "substring", "superstring"]))
        def other_version(self, mode):
            self._do(("other_version", mode))

        @precondition(lambda self: self.world.scans > 0)
        @rule(kind=st.sampled_from(["drop", "add_missing", "checksum", "move", "null"]), p=paths)
        def alter(self, kind, p):
            self._do(("alter", kind, p))

        @rule()
        def scan(self):
            self._do(("scan",))

        @rule()
        def scan_again(self):  # scans are the observation points: give them more weight
            self._do(("scan",))

        def teardown(self):
            try:
                self.world.close()
            finally:
                case = {"ops": self.ops}
                col.evals += 1
                kinds = {o[0] for o in self.ops}
                for k in kinds:
                    col.label(f"op:{k}")
                col.label(f"scans:{min(self.world.scans, 5)}")
                col.label("reanalysis-observation-unavailable" if self.world.probe_unusable else "reanalysis-observed")
                if self.world.nontrivial:
                    col.nontrivial.add(digest(case))
                    col.sample(case)
                if self.failed:
                    col.fail(case, self.failed[0], self.failed[1])

    return CacheHistory


def machines(col, seed, n, steps):
    machine = make_machine(col)
    s = settings(max_examples=n, stateful_step_count=steps, deadline=None, database=None, derandomize=False, report_multiple_bugs=False,
                 phases=(Phase.generate,), suppress_health_check=list(HealthCheck), print_blob=False)
    run_state_machine_as_test(hypothesis.seed(seed)(machine), settings=s)


def plan(tier, seed):
    quick = tier == "quick"
    jobs = []
    jobs.append(("enum_sequences", {"tier": tier, "part": 0, "nparts": 1, "length": 1}))
    nparts = 14 if quick else 48
    for p in range(nparts):
        jobs.append(("enum_sequences", {"tier": tier, "part": p, "nparts": nparts, "length": 2}))
    if not quick:
        for p in range(96):
            jobs.append(("enum_sequences", {"tier": "quick", "part": p, "nparts": 96, "length": 3}))
    jobs.append(("big_file_histories", {}))
    for i in range(16):
        jobs.append(("machines", {"seed": shard_seed(seed, ID, i), "n": 15 if quick else 300, "steps": 25 if quick else 50}))
    return jobs
