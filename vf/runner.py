"""Runner: tiers, seeds, 16-way sharding, evidence writer, VIOLATION / KNOWN-FINDING lines.

    python -m vf.runner <ID> quick|thorough
    python -m vf.runner <ID> --replay <file>

A property module (vf/props/cNN.py) provides

    ID, LEVEL, RULE, ASSUMPTIONS, FLOOR (minimum distinct_nontrivial, else harness error)
    plan(tier, seed) -> [(function_name, kwargs), ...]        shard jobs, run in a 16-process pool
    run_case(case) -> None | (bucket, message)                evaluate ONE case against /repo
    shrink_candidates(case) -> iterable of smaller cases      optional
    known_signature(case, bucket, entry) -> bool              optional: failure belongs to open finding `entry`
    REQUIRED_LABELS                                           optional: labels that must be non-zero

Shard functions receive a Collector and call collector.eval(case, nontrivial=..., labels=[...]).
Exit codes: 0 held / 1 VIOLATION / 2 harness error.
"""
from __future__ import annotations

import importlib
import json
import multiprocessing
from concurrent.futures import ProcessPoolExecutor, as_completed
import os
import signal
import sys
import time
import traceback
from collections import Counter
from pathlib import Path

from vf import common
from vf.common import HOME, REPO, CaseTimeout, digest, jdump

NPROC = int(os.environ.get("VERIF_NPROC", "16"))
CASE_TIMEOUT = int(os.environ.get("VERIF_CASE_TIMEOUT", "60"))
MAX_SAMPLES = 8
SAMPLE_BYTES = 2000


def _alarm(signum, frame):
    raise CaseTimeout()


class Collector:
    """Per-shard accumulator. Everything in it is picklable."""

    def __init__(self, modname: str, shard: str):
        self.modname = modname
        self.shard = shard
        self.evals = 0
        self.nontrivial: set[str] = set()
        self.nontrivial_enum = 0  # distinct by construction (enumeration without repetition)
        self.classes: Counter = Counter()
        self.samples: list = []
        self.failures: dict[str, dict] = {}
        self.suppressed: Counter = Counter()
        self.excluded_known = 0
        self.inconclusive: list[str] = []
        self.notes: dict = {}
        self.wall = 0.0
        self._mod = None

    # -- helpers ---------------------------------------------------------
    def mod(self):
        if self._mod is None:
            self._mod = importlib.import_module(self.modname)
        return self._mod

    def label(self, *labels):
        for lb in labels:
            self.classes[lb] += 1

    def sample(self, case, force=False):
        n = self.evals
        if force or len(self.samples) < 3 or (n & (n - 1) == 0 and len(self.samples) < MAX_SAMPLES):
            s = jdump(case)
            if len(s) > SAMPLE_BYTES:
                s = s[:SAMPLE_BYTES] + "...(truncated)"
                self.samples.append(s)
            else:
                self.samples.append(case)

    def fail(self, case, bucket: str, message: str):
        size = len(jdump(case))
        old = self.failures.get(bucket)
        if old is None or size < old["size"]:
            self.failures[bucket] = {"bucket": bucket, "message": message[:4000], "case": case, "size": size}
        if old is not None:
            self.suppressed[bucket] += 1

    def eval(self, case, nontrivial: bool, labels=(), distinct_key=None, enumerated=False, timeout=None):
        """Evaluate one case with the module's run_case under the watchdog."""
        self.evals += 1
        for lb in labels:
            self.classes[lb] += 1
        if nontrivial:
            if enumerated:
                self.nontrivial_enum += 1
            else:
                self.nontrivial.add(digest(distinct_key if distinct_key is not None else case))
            self.sample(case)
        res = guarded(self.mod().run_case, case, timeout)
        if res is not None:
            self.fail(case, res[0], res[1])
        return res

    def bulk(self, evals: int, nontrivial_distinct: int):
        """For tight enumeration loops that evaluate cases themselves (distinct by construction)."""
        self.evals += evals
        self.nontrivial_enum += nontrivial_distinct

    def __getstate__(self):
        d = dict(self.__dict__)
        d["_mod"] = None
        return d


def guarded(fn, case, timeout=None):
    """Run fn(case) under a watchdog; a timeout is reported as a 'hang' failure of the case."""
    timeout = timeout or CASE_TIMEOUT
    old = signal.signal(signal.SIGALRM, _alarm)
    signal.setitimer(signal.ITIMER_REAL, timeout)
    try:
        return fn(case)
    except CaseTimeout:
        return ("hang", f"no result within the {timeout}s watchdog")
    finally:
        signal.setitimer(signal.ITIMER_REAL, 0)
        signal.signal(signal.SIGALRM, old)


# ---------------------------------------------------------------------------


def _run_job(args):
    modname, fname, kwargs, shard = args
    t0 = time.time()
    try:
        common.assert_sut()
        mod = importlib.import_module(modname)
        col = Collector(modname, shard)
        getattr(mod, fname)(col, **kwargs)
        col.wall = time.time() - t0
        col._mod = None
        return ("ok", col)
    except BaseException:  # harness error: never a violation
        return ("err", f"shard {shard} ({fname} {kwargs}):\n{traceback.format_exc()}")


def _load_known():
    p = HOME / "known_findings.json"
    if not p.exists():
        return []
    data = json.loads(p.read_text())
    return data.get("findings", [])


def _write_evidence(mod, tier, seed, cov, wall, violations):
    ev = {
        "property_id": mod.ID,
        "tier": tier,
        "seed": seed,
        "level": mod.LEVEL,
        "coverage": cov,
        "assumptions": list(getattr(mod, "ASSUMPTIONS", [])),
        "wall_s": round(wall, 2),
        "violations": violations,
    }
    d = Path(os.environ.get("VERIF_EVIDENCE_DIR") or HOME / "evidence")
    d.mkdir(parents=True, exist_ok=True)
    (d / f"{mod.ID}.json").write_text(json.dumps(ev, indent=1, ensure_ascii=False, default=str) + "\n")


def _shrink(mod, failure, budget, seconds=20.0):
    """Greedy descent over module-provided candidates; bounded by a count of re-evaluations."""
    gen = getattr(mod, "shrink_candidates", None)
    if gen is None:
        return failure, 0
    case, bucket = failure["case"], failure["bucket"]
    used = 0
    improved = True
    t_end = time.time() + seconds  # shrinking only improves the replay; it is bounded in evaluations AND wall time
    if bucket == "hang":
        return failure, 0
    while improved and used < budget and time.time() < t_end:
        improved = False
        for cand in gen(case):
            if used >= budget or time.time() >= t_end:
                break
            used += 1
            try:
                res = guarded(mod.run_case, cand, timeout=20)
            except Exception:
                continue  # candidate left the domain of the harness; ignore
            if res is not None and res[0] == bucket:
                case = cand
                failure = {"bucket": bucket, "message": res[1][:4000], "case": cand, "size": len(jdump(cand))}
                improved = True
                break
    return failure, used


def _emit_violation(mod, failure, tier, seed, origin):
    out = Path(os.environ.get("VERIF_OUT_DIR") or HOME / "out") / mod.ID
    out.mkdir(parents=True, exist_ok=True)
    name = f"{digest(failure['bucket'])[:10]}.json"
    path = out / name
    path.write_text(
        json.dumps(
            {
                "property": mod.ID,
                "origin": origin,
                "bucket": failure["bucket"],
                "message": failure["message"],
                "case": failure["case"],
                "seed": seed,
                "tier": tier,
                "tree": common.tree_id(),
            },
            indent=1,
            ensure_ascii=False,
            default=str,
        )
        + "\n"
    )
    print(f"VIOLATION property={mod.ID} replay={path}")
    print(f"  bucket: {failure['bucket']}")
    for line in failure["message"].splitlines()[:12]:
        print(f"  | {line}")
    sys.stdout.flush()


def run_replay_file(mod, path: Path):
    doc = json.loads(path.read_text())
    case = doc["case"]
    res = guarded(mod.run_case, case)
    return doc, res


def main(argv):
    if len(argv) < 2:
        print(__doc__)
        return 2
    pid = argv[0].upper()
    modname = f"vf.props.{pid.lower()}"
    try:
        common.assert_sut()
        mod = importlib.import_module(modname)
    except Exception:
        print("HARNESS-ERROR: cannot import property module / code under test", file=sys.stderr)
        traceback.print_exc()
        return 2
    seed = int(os.environ.get("VERIF_SEED", "1") or "1")

    if argv[1] == "--replay":
        path = Path(argv[2])
        try:
            doc, res = run_replay_file(mod, path)
        except Exception:
            print("HARNESS-ERROR: replay failed to run", file=sys.stderr)
            traceback.print_exc()
            return 2
        if res is None:
            print(f"replay {path}: property {pid} holds on this case")
            return 0
        print(f"VIOLATION property={pid} replay={path}")
        print(f"  bucket: {res[0]}")
        for line in res[1].splitlines()[:20]:
            print(f"  | {line}")
        return 1

    tier = argv[1]
    if tier not in ("quick", "thorough"):
        print("tier must be quick or thorough", file=sys.stderr)
        return 2
    # the tier named on the command line is authoritative (quick_cmd / thorough_cmd both name it); VERIF_TIER is informational
    t0 = time.time()
    known = [k for k in _load_known() if k.get("property") == pid]
    open_known = [k for k in known if k.get("status") == "open"]
    violations: list[tuple[dict, str]] = []
    known_hits: dict[str, int] = Counter()
    known_seen_in_replay: set[str] = set()
    harness_errors: list[str] = []

    # ---- tier 1: replays ---------------------------------------------------
    rep_dir = HOME / "replays" / pid
    replay_count = 0
    replay_samples = []
    for path in sorted(rep_dir.glob("*.json")) if rep_dir.exists() else []:
        try:
            doc, res = run_replay_file(mod, path)
        except Exception:
            harness_errors.append(f"replay {path}:\n{traceback.format_exc()}")
            continue
        replay_count += 1
        expect = doc.get("expect", "pass")
        if len(replay_samples) < 3:
            replay_samples.append({"replay": path.name, "note": doc.get("note", "")})
        if expect.startswith("known:"):
            kid = expect.split(":", 1)[1]
            entry = next((k for k in open_known if k.get("id") == kid), None)
            if res is not None:
                if entry is not None:
                    known_seen_in_replay.add(kid)
                else:
                    violations.append(({"bucket": res[0], "message": res[1], "case": doc["case"]}, f"replay:{path.name}"))
            # a known finding that no longer reproduces is fine (reported in the evidence)
        elif res is not None:
            violations.append(({"bucket": res[0], "message": res[1], "case": doc["case"]}, f"replay:{path.name}"))

    # ---- tiers 2+3: enumeration and generation, sharded ---------------------
    jobs = mod.plan(tier, seed)
    work = [(modname, fname, kwargs, f"{i}:{fname}") for i, (fname, kwargs) in enumerate(jobs)]
    merged = Collector(modname, "merged")
    walls = []
    if work:
        ctx = multiprocessing.get_context("fork")
        # an executor rather than multiprocessing.Pool: when a worker process dies (killed, out of memory) its futures fail
        # with BrokenProcessPool and the run ends as a harness error, where a Pool would wait for the lost result forever
        def results():
            with ProcessPoolExecutor(max_workers=min(NPROC, len(work)), mp_context=ctx) as ex:
                futs = {ex.submit(_run_job, w): w for w in work}
                for fut in as_completed(futs):
                    try:
                        yield fut.result()
                    except Exception as e:  # noqa: BLE001
                        yield ("err", f"shard {futs[fut][3]}: worker process lost ({type(e).__name__}: {e})")

        if True:
            for status, payload in results():
                if status == "err":
                    harness_errors.append(payload)
                    continue
                col = payload
                merged.evals += col.evals
                merged.nontrivial |= col.nontrivial
                merged.nontrivial_enum += col.nontrivial_enum
                merged.classes.update(col.classes)
                merged.suppressed.update(col.suppressed)
                merged.excluded_known += col.excluded_known
                merged.inconclusive.extend(col.inconclusive)
                for k, v in col.notes.items():
                    if isinstance(v, (int, float)) and isinstance(merged.notes.get(k, 0), (int, float)):
                        merged.notes[k] = merged.notes.get(k, 0) + v
                    else:
                        merged.notes.setdefault(k, v)
                walls.append((col.shard, round(col.wall, 1)))
                for s in col.samples:
                    if len(merged.samples) < MAX_SAMPLES:
                        merged.samples.append(s)
                for b, f in col.failures.items():
                    old = merged.failures.get(b)
                    if old is None or f["size"] < old["size"]:
                        merged.failures[b] = f
                    if old is not None:
                        merged.suppressed[b] += 1

    # ---- triage of failures: open known findings vs violations ----------------
    sig = getattr(mod, "known_signature", None)
    shrink_budget = 150 if tier == "quick" else 1500
    for bucket in sorted(merged.failures):
        f = merged.failures[bucket]
        kid = None
        if sig is not None:
            for entry in open_known:
                try:
                    if sig(f["case"], f["bucket"], entry):
                        kid = entry["id"]
                        break
                except Exception:
                    harness_errors.append(f"known_signature:\n{traceback.format_exc()}")
        if kid is not None:
            known_hits[kid] += 1 + merged.suppressed.get(bucket, 0)
            continue
        try:
            f2, used = _shrink(mod, f, shrink_budget, 15.0 if tier == "quick" else 120.0)
        except Exception:
            f2 = f
        violations.append((f2, "search"))

    for entry in open_known:
        kid = entry["id"]
        if kid in known_seen_in_replay or known_hits.get(kid):
            print(f"KNOWN-FINDING: property={pid} {entry.get('what', kid)}")

    for f, origin in violations:
        _emit_violation(mod, f, tier, seed, origin)

    distinct = len(merged.nontrivial) + merged.nontrivial_enum
    cov = {
        "evaluations": merged.evals + replay_count,
        "distinct_nontrivial": distinct,
        "rule": mod.RULE,
        "samples": merged.samples or replay_samples,
        "classes": dict(sorted(merged.classes.items())),
        "replays_run": replay_count,
        "excluded_known": merged.excluded_known,
        "known_findings_hit": dict(known_hits) | {k: "replay" for k in known_seen_in_replay if k not in known_hits},
        "suppressed_same_bucket": dict(merged.suppressed),
        "inconclusive": merged.inconclusive[:20],
        "shards": len(work),
        "shard_wall_s": sorted(walls, key=lambda x: -x[1])[:4],
        "tree": common.tree_id(),
    }
    cov.update({k: v for k, v in merged.notes.items()})
    if getattr(mod, "EXHAUSTIVE", None):
        cov["exhaustive"] = True
        cov["bounds"] = mod.EXHAUSTIVE.get(tier) if isinstance(mod.EXHAUSTIVE, dict) else mod.EXHAUSTIVE
    _write_evidence(mod, tier, seed, cov, time.time() - t0, len(violations))

    print(
        f"[{pid} {tier} seed={seed}] evaluations={cov['evaluations']} distinct_nontrivial={distinct} "
        f"violations={len(violations)} known={sum(known_hits.values()) + len(known_seen_in_replay)} "
        f"excluded_known={merged.excluded_known} wall={time.time() - t0:.1f}s"
    )
    if harness_errors:
        for e in harness_errors[:5]:
            print("HARNESS-ERROR:", e, file=sys.stderr)
        return 1 if violations else 2
    if violations:
        return 1
    # non-vacuity: a check that explored too little is a harness error, not a pass
    floor = getattr(mod, "FLOOR", {"quick": 2, "thorough": 2})
    floor = floor.get(tier, 2) if isinstance(floor, dict) else floor
    missing = [lb for lb in getattr(mod, "REQUIRED_LABELS", []) if merged.classes.get(lb, 0) == 0]
    if distinct < floor or missing:
        print(
            f"HARNESS-ERROR: vacuous run: distinct_nontrivial={distinct} (floor {floor}), labels never produced: {missing}",
            file=sys.stderr,
        )
        return 2
    return 0


if __name__ == "__main__":
    sys.exit(main(sys.argv[1:]))
